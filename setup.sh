#!/bin/bash
# Offline setup: jsonschema (cross-check of the reference evaluator) and networkx into /verif/.deps
set -e
cd "$(dirname "$0")"
if [ ! -d .deps/jsonschema ] || [ ! -d .deps/networkx ]; then
  rm -rf .deps
  PIP_NO_INDEX=1 /venv/bin/pip install -q --no-index --find-links /opt/veriftools/wheels --target .deps jsonschema networkx
fi
PYTHONPATH=/repo:$(pwd) /venv/bin/python -c "import sys; sys.path.append('.deps'); import jsonschema, networkx, statham; print('setup ok')"
