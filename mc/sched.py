"""E3: stateless exploration of all interleavings of real threads up to a preemption bound.

Scheduling points are trace events inside files of the statham package:
  granularity "line":   every `line` event
  granularity "switch": `call` events and backward jumps only (where CPython 3.12's eval loop
                        can actually drop the GIL between two Python-level steps)
  granularity ("calls", {names}): only at entry to the named functions (coarse; for long-running bodies)
  granularity ("lines", {file names}): every line, but only inside the named library files (deep bounds on one component)
Exactly one thread runs at a time (per-thread semaphore baton).  Schedules are enumerated
by iterative context bounding: the default continuation keeps the running thread, then the
lowest unfinished id; deviating while the running thread is still enabled costs one preemption.
Every execution runs to completion.
"""
import sys
import threading

PKG_MARK = "/statham/"
WAIT = 30.0


class ScheduleDivergence(Exception):
    """Replaying a recorded prefix met a different set of enabled threads: nondeterminism not owned."""


class Deadlock(Exception):
    pass


class Execution:
    __slots__ = ("points", "results", "errors", "steps")

    def __init__(self):
        self.points = []  # (n_enabled, chosen, preemptive)
        self.results = {}
        self.errors = []
        self.steps = 0


def run(bodies, schedule, granularity="line", expect=None):
    """bodies: list of zero-arg callables (thread bodies).  schedule: dict {point index: alt index}.
    Returns Execution.  Deterministic given deterministic bodies."""
    n = len(bodies)
    sems = [threading.Semaphore(0) for _ in range(n)]
    done = threading.Semaphore(0)
    ex = Execution()
    state = {"current": None, "unfinished": set(range(n)), "failed": None}

    def point(me, running_enabled):
        """A scheduling decision.  me = running thread (or None at start/finish)."""
        if running_enabled:
            enabled = [me] + sorted(u for u in state["unfinished"] if u != me)
        else:
            enabled = sorted(state["unfinished"])
        idx = len(ex.points)
        alt = schedule.get(idx, 0)
        if alt >= len(enabled):
            state["failed"] = ScheduleDivergence("point %d: alt %d but only %d enabled" % (idx, alt, len(enabled)))
            alt = 0
        if expect is not None and idx < len(expect) and expect[idx][0] != len(enabled):
            state["failed"] = ScheduleDivergence("point %d: %d enabled, recorded run had %d" % (idx, len(enabled), expect[idx][0]))
        ex.points.append((len(enabled), alt, bool(running_enabled and len(enabled) > 1)))
        return enabled[alt] if enabled else None

    def handover(me, nxt):
        state["current"] = nxt
        sems[nxt].release()
        if not sems[me].acquire(timeout=WAIT):
            state["failed"] = Deadlock("thread %d never resumed" % me)
            raise SystemExit

    def make_tracers(me):
        last = {}

        def local(frame, event, arg):
            if event == "line":
                if granularity == "switch":
                    fid = id(frame)
                    prev = last.get(fid, 0)
                    last[fid] = frame.f_lineno
                    if frame.f_lineno > prev:
                        return local
                nxt = point(me, True)
                if nxt != me:
                    handover(me, nxt)
            elif event == "return" and granularity == "switch":
                last.pop(id(frame), None)
            return local

        def glob(frame, event, arg):
            if event != "call" or PKG_MARK not in frame.f_code.co_filename:
                return None
            if isinstance(granularity, tuple) and granularity[0] == "lines":
                # ("lines", {file base names}): line-level scheduling points, but only inside the named library files
                base = frame.f_code.co_filename.rsplit("/", 1)[-1]
                return local if base in granularity[1] else None
            if isinstance(granularity, tuple):
                # ("calls", {function names}): scheduling points only at entry to the named functions (coarse, cheap)
                if frame.f_code.co_name in granularity[1]:
                    nxt = point(me, True)
                    if nxt != me:
                        handover(me, nxt)
                return None
            if granularity == "switch":
                last[id(frame)] = frame.f_lineno
                nxt = point(me, True)
                if nxt != me:
                    handover(me, nxt)
            return local

        return glob

    def runner(me):
        if not sems[me].acquire(timeout=WAIT):
            return
        sys.settrace(make_tracers(me))
        try:
            ex.results[me] = bodies[me]()
        except SystemExit:
            sys.settrace(None)
            return
        except BaseException as exc:  # body is expected to classify library exceptions itself
            ex.errors.append((me, repr(exc)))
        finally:
            sys.settrace(None)
        state["unfinished"].discard(me)
        if state["unfinished"]:
            nxt = point(None, False)
            state["current"] = nxt
            sems[nxt].release()
        else:
            done.release()

    threads = [threading.Thread(target=runner, args=(i,), daemon=True) for i in range(n)]
    for t in threads:
        t.start()
    first = point(None, False)
    state["current"] = first
    sems[first].release()
    if not done.acquire(timeout=WAIT * 4):
        state["failed"] = state["failed"] or Deadlock("execution did not complete (no enabled thread made progress)")
        for s in sems:
            s.release()
    for t in threads:
        t.join(timeout=WAIT)
    ex.steps = len(ex.points)
    if state["failed"]:
        raise state["failed"]
    return ex


def explore(make_bodies, check, bound, granularity="line", base=None, shard=(0, 1), max_execs=None):
    """Iterative-context-bounded DFS.  make_bodies() -> (bodies, context), fresh for every execution.
    check(execution, context, schedule) evaluates the oracle.
    base: schedule fixed for this exploration (e.g. {0: k} = which thread starts; non-preemptive, cost 0).
    shard=(r, m): only first-level deviation points i with i % m == r are expanded here (work sharding; the
    union over r of all shards is the whole bounded space); the root execution is checked by shard r == 0.
    Returns dict(executions, max_preemptions, points_root, capped)."""
    base = dict(base or {})
    counters = {"executions": 0, "capped": False, "max_preemptions": 0, "points_root": 0}
    r, m = shard

    def execute(schedule, expect=None):
        bodies, ctx = make_bodies()
        ex = run(bodies, schedule, granularity, expect)
        counters["executions"] += 1
        check(ex, ctx, schedule)
        return ex

    def expand(ex, schedule, start, used, first_level):
        for i in range(start, len(ex.points)):
            if first_level and i % m != r:
                continue
            n_enabled, chosen, preemptive = ex.points[i]
            if n_enabled < 2:
                continue
            cost = used + (1 if preemptive else 0)
            if cost > bound:
                continue
            for alt in range(1, n_enabled):
                if max_execs and counters["executions"] >= max_execs:
                    counters["capped"] = True
                    return
                s2 = dict(schedule)
                s2[i] = alt
                child = execute(s2, ex.points[:i])
                counters["max_preemptions"] = max(counters["max_preemptions"], cost)
                expand(child, s2, i + 1, cost, False)

    bodies, ctx = make_bodies()
    root = run(bodies, base, granularity)
    counters["points_root"] = len(root.points)
    if r == 0:
        counters["executions"] += 1
        check(root, ctx, base)
    expand(root, base, (max(base) + 1) if base else 0, 0, True)
    return counters
