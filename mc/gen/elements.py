"""Element family `Elems`: DSL-built trees, each produced by a factory (fresh objects per call)."""
import itertools

from mc import runner  # noqa: F401

from statham.schema.constants import NotPassed
from statham.schema.elements import (
    AllOf, AnyOf, Array, Boolean, Element, Integer, Not, Nothing, Null, Number, Object, OneOf, String,
)
from statham.schema.property import Property

# ---------------------------------------------------------------------------
# keyword menus per element class: keyword -> 1..3 literal values
COMMON = {"default": [1, None, "x"], "const": [1, True, "a", [1], {"a": True}], "enum": [[1, "a"], [True, None], [[1], {"a": 1}]], "description": ["text"]}
KW = {
    "Element": {
        **COMMON,
        "minimum": [1, 1.5], "maximum": [2], "exclusiveMinimum": [0], "exclusiveMaximum": [3], "multipleOf": [2, 0.5],
        "format": ["uuid"], "pattern": ["^a"], "minLength": [1], "maxLength": [2],
        "minItems": [1], "maxItems": [2], "uniqueItems": [True], "additionalItems": [False],
        "required": [["a"], []], "minProperties": [1], "maxProperties": [2], "additionalProperties": [False],
        "dependencies": [{"a": ["b"]}],
    },
    "String": {**COMMON, "format": ["uuid", "date-time"], "pattern": ["^a", 'q"\\d'], "minLength": [0, 1], "maxLength": [2], "default": ["x", "", 1]},
    "Integer": {**COMMON, "minimum": [0, 1], "maximum": [2], "exclusiveMinimum": [0], "exclusiveMaximum": [3], "multipleOf": [2], "default": [1, 0, "x"]},
    "Number": {**COMMON, "minimum": [0.5], "maximum": [2.5], "exclusiveMinimum": [0], "exclusiveMaximum": [3.0], "multipleOf": [0.5], "default": [1.5, 0.0, 1]},
    "Boolean": {**COMMON, "default": [True, False]},
    "Null": {**COMMON, "default": [None]},
}
CLASSES = {"Element": Element, "String": String, "Integer": Integer, "Number": Number, "Boolean": Boolean, "Null": Null}


def simple_elements(max_kw=2):
    """(label, factory) for every element class x every keyword subset of size <= max_kw x literal choices."""
    out = []
    for cname, menu in KW.items():
        cls = CLASSES[cname]
        kws = sorted(menu)
        out.append(("%s()" % cname, (lambda cls=cls: cls())))
        for r in range(1, max_kw + 1):
            for combo in itertools.combinations(kws, r):
                for vals in itertools.product(*[range(len(menu[k])) for k in combo]):
                    kwargs = {k: menu[k][i] for k, i in zip(combo, vals)}
                    label = "%s(%s)" % (cname, ", ".join("%s=%r" % kv for kv in kwargs.items()))
                    out.append((label, (lambda cls=cls, kwargs=kwargs: cls(**_fresh(kwargs)))))
    return out


def _fresh(x):
    import copy

    return copy.deepcopy(x)


# ---------------------------------------------------------------------------
def _cls_plain():
    class Plain(Object):
        a = Property(Integer())
        b = Property(String(), required=True)

    return Plain


def _cls_renamed():
    class Renamed(Object):
        class_ = Property(Integer(default=5), source="class")
        a_b = Property(String(), source="a b", required=True)
        c = Property(Element())

    return Renamed


def _cls_required_kw():
    class ReqKw(Object, required=["k"]):
        b = Property(Element(), required=True)
        d = Property(Integer(default=3), required=True)

    return ReqKw


def _cls_keywords():
    class Kw(Object, additionalProperties=False, patternProperties={"^x": Integer()}, minProperties=1, maxProperties=3, propertyNames=String(maxLength=3), dependencies={"a": ["b"]}, default={"a": 1, "b": "s"}, description='desc "q" \\ end'):
        a = Property(Integer())
        b = Property(String())

    return Kw


def _cls_additional_schema():
    class Add(Object, additionalProperties=Integer(default=7), patternProperties={"^s": String(), "t$": Element(minLength=2)}):
        a = Property(Element(default={"x": [1]}))

    return Add


def _cls_const_enum():
    class CE(Object, const={"a": 1}, enum=[{"a": 1}, {"a": True}]):
        a = Property(Element())

    return CE


def _cls_nested():
    class Inner(Object):
        v = Property(Integer(default=0))
        w = Property(String(), required=True)

    class Outer(Object):
        inner = Property(Inner, required=True)
        inners = Property(Array(Inner))
        opt = Property(Inner)

    return Outer


def _cls_shared_twice():
    class Leaf(Object):
        n = Property(Number())

    class Holder(Object, additionalProperties=Leaf):
        left = Property(Leaf)
        right = Property(Array([Leaf, Integer()], additionalItems=Leaf))

    return Holder


def _cls_inherit2():
    class Base(Object, required=["k"], minProperties=1):
        a = Property(Integer(), required=True)
        a_b = Property(String(default="z"), source="a b")  # a renamed property, inherited below

    class Child(Base, maxProperties=4):
        b = Property(String(), required=True)

    return Child


def _cls_inherit3():
    class G(Object, additionalProperties=Integer()):
        a = Property(Integer())

    class P(G, patternProperties={"^z": String()}):
        a = Property(String())
        b = Property(Boolean(default=False))

    class C(P, additionalProperties=False):
        c = Property(Null())

    return C


def _cls_inherit_parent_of_used_child():
    class Par(Object, required=["k"]):
        a = Property(Integer())

    class Chi(Par):
        b = Property(String(), required=True)

    Chi.__unused__ = None
    return Par, Chi


def _cls_default_obj():
    class D(Object, default={"a": 1}):
        a = Property(Integer())
        b = Property(String(default="dflt"))

    return D


def _cls_composition_props():
    class Comp(Object):
        u = Property(AnyOf(Integer(), String(minLength=2)))
        o = Property(OneOf(Integer(minimum=2), Number(maximum=1)), required=True)
        al = Property(AllOf(Element(minimum=1), Integer()))
        n = Property(Not(String()))
        arr = Property(Array(AnyOf(Integer(), Array(String()))))

    return Comp


def _cls_default_inherit():
    class DBase(Object, default={"a": 1}):
        a = Property(Integer())
        z = Property(String(default="zz"))

    class DSub(DBase):
        class_ = Property(Integer(default=4), source="class")

    class DHolder(Object):
        base = Property(DBase)
        sub = Property(DSub)
        num = Property(Number(), required=True)

    return DHolder


def _cls_pattern_overlap():
    class Inner2(Object):
        x_y = Property(Integer(default=1), source="x y")

    class Overlap(Object, patternProperties={"^n": Element(minimum=0), "^o": Element(minProperties=0)}):
        n = Property(Number())
        o = Property(Inner2)

    return Overlap


def _cls_default_empty():
    """A model whose default is the empty object (every member optional)."""
    class Limits(Object, default={}):
        cpu = Property(Integer(default=1))
        tag = Property(String())

    return Limits


def _cls_keyword_names():
    """Members whose JSON names coincide with JSON Schema keywords (they are plain names inside the maps that hold them)."""
    class KwInner(Object):
        type = Property(String())

    class KwNames(Object, patternProperties={"^enum": Integer()}, dependencies={"default": Element(required=["const"]), "const": ["default"], "items": KwInner}):
        default = Property(Integer(minimum=0))
        const = Property(KwInner)
        enum_ = Property(Array(String()), source="enum")
        items = Property(Boolean())
        title = Property(Element(default=[]))

    return KwNames


def _cls_child_after_parent_serialized():
    from statham.serializers import serialize_json, serialize_python

    class SBase(Object, additionalProperties=False):
        a = Property(Integer(), required=True)

    class SChild(SBase, additionalProperties=True):
        b = Property(String(), required=True)

    serialize_json(SBase)
    serialize_python(SBase)
    SBase({"a": 1})
    return SChild


def _inline():
    return Object.inline("Inl", properties={"a": Property(Integer(), required=True), "b_": Property(String(default="z"), source="b")}, additionalProperties=False)


def object_classes():
    return [
        ("Plain", _cls_plain), ("Renamed", _cls_renamed), ("ReqKw", _cls_required_kw), ("Kw", _cls_keywords), ("Add", _cls_additional_schema),
        ("CE", _cls_const_enum), ("Outer", _cls_nested), ("Holder", _cls_shared_twice), ("Child", _cls_inherit2), ("C3", _cls_inherit3),
        ("D", _cls_default_obj), ("Comp", _cls_composition_props), ("Inl", _inline), ("DHolder", _cls_default_inherit), ("Overlap", _cls_pattern_overlap), ("SChild(after parent was serialized)", _cls_child_after_parent_serialized), ("KwNames", _cls_keyword_names), ("Limits(default={})", _cls_default_empty),
    ]


# ---------------------------------------------------------------------------
def untyped_with_properties():
    return [
        ("Element(properties a,b)", lambda: Element(properties={"a": Property(Integer()), "b": Property(String(), required=True)})),
        ("Element(properties renamed)", lambda: Element(properties={"class_": Property(Integer(default=2), source="class"), "a_b": Property(Element(), source="a b", required=True)}, required=["z"])),
        ("Element(props+pattern+additional)", lambda: Element(properties={"a": Property(Integer())}, patternProperties={"^a": Element(minimum=2), "b$": String()}, additionalProperties=Boolean())),
        ("Element(required only)", lambda: Element(required=["a", "b"])),
        ("Element(props, additional False)", lambda: Element(properties={"a": Property(Element(default=[]))}, additionalProperties=False)),
        ("Element(dependencies schema)", lambda: Element(dependencies={"a": Element(required=["b"]), "c": ["a"]}, propertyNames=String(pattern="^[a-c]"))),
    ]


def arrays_and_compositions():
    return [
        ("Array(Integer)", lambda: Array(Integer())),
        ("Array(tuple)", lambda: Array([Integer(), String()])),
        ("Array(tuple, additional False)", lambda: Array([Integer(), String()], additionalItems=False)),
        ("Array(tuple, additional schema)", lambda: Array([Integer()], additionalItems=String(default="d"), minItems=1, maxItems=3, uniqueItems=True)),
        ("Array(contains)", lambda: Array(Element(), contains=Integer(minimum=2))),
        ("Array([], additionalItems=Number())", lambda: Array([], additionalItems=Number())),
        ("Array([], additionalItems=class)", lambda: Array([], additionalItems=_cls_renamed())),
        ("Element(items=[], additionalItems=Array(Number()))", lambda: Element(items=[], additionalItems=Array(Number()))),
        ("Array(Nothing())", lambda: Array(Nothing())),
        ("Array(Integer(), additionalItems=class)", lambda: Array(Integer(), additionalItems=_cls_plain())),
        ("Element(additionalItems=class)", lambda: Element(additionalItems=_cls_renamed())),
        ("Element(items=String(), additionalItems=Array(class))", lambda: Element(items=String(), additionalItems=Array(_cls_plain()))),
        ("Element(additionalProperties=Number())", lambda: Element(additionalProperties=Number(), patternProperties={"^s": String()})),
        ("Array(Array)", lambda: Array(Array(Number()))),
        ("Element(items tuple)", lambda: Element(items=[Integer(), Element(const=True)], additionalItems=Nothing())),
        ("AnyOf", lambda: AnyOf(Integer(), String(), default=1)),
        ("OneOf", lambda: OneOf(Integer(minimum=1), Number(maximum=2))),
        ("AllOf", lambda: AllOf(Element(minimum=1), Element(maximum=3), Integer())),
        ("Not", lambda: Not(AnyOf(String(), Null()))),
        ("AnyOf(nested)", lambda: AnyOf(AllOf(Integer(), Element(multipleOf=2)), OneOf(String(), Array(String())), Not(Element()))),
        ("AllOf(obj-ish)", lambda: AllOf(Element(required=["a"]), Element(properties={"a": Property(Integer())}), Element(minProperties=1))),
        ("AnyOf(classes)", lambda: AnyOf(_cls_plain(), _cls_renamed(), Integer())),
        ("AllOf(Not(..), Element(props with defaults))", lambda: AllOf(Not(Element(required=["legacy"])), Element(properties={"size": Property(Integer(default=3)), "tag": Property(String())}))),
        ("AllOf(Not(..), class with defaults)", lambda: AllOf(Not(Element(required=["legacy"])), _cls_default_obj())),
        ("Element(Not property + pattern)", lambda: Element(properties={"cfg": Property(Not(Element(required=["legacy"])))}, patternProperties={"^c": Element(properties={"size": Property(Integer(default=3))})})),
        ("AnyOf(Not(..), ..) / OneOf", lambda: OneOf(AllOf(Not(String()), Element(properties={"d": Property(Integer(default=1))})), String())),
        ("OneOf(class, untyped)", lambda: OneOf(_cls_plain(), Element(required=["zz"]))),
        ("Array(class)", lambda: Array(_cls_nested())),
        ("Not(class)", lambda: Not(_cls_plain())),
        ("Nothing", lambda: Nothing()),
        ("Element(contains class)", lambda: Element(contains=_cls_plain(), items=Element())),
    ]


def all_trees(max_kw=2):
    """All DSL factories: (label, factory)."""
    out = []
    out += object_classes()
    out += untyped_with_properties()
    out += arrays_and_compositions()
    out += simple_elements(max_kw)
    return out
