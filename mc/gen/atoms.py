"""Schema lattice G: leaf schemas, keyword atoms, wrappers, bounded enumeration.

A state is a set of atoms with pairwise distinct primary keywords; its schema is the
merge of the atoms' fragments.  Everything here is plain JSON (deep-copied before
it is handed to statham, because parse_element mutates its input).
"""
import copy
import itertools
import json

OBJ = {"type": "object", "title": "Obj"}

LEAVES = [
    True, False, {}, {"type": "null"}, {"type": "boolean"}, {"type": "integer"}, {"type": "number"},
    {"type": "string"}, {"type": "array"}, dict(OBJ), {"const": 1}, {"minimum": 2}, {"minLength": 2},
    {"required": ["a"]},
]


def _atoms():
    A = []

    def add(kw, frag, group):
        A.append({"kw": kw, "frag": frag, "group": group})

    for t in ("null", "boolean", "integer", "number", "string", "array"):
        add("type", {"type": t}, "generic")
    add("type", dict(OBJ), "generic")
    for tl in (["string"], ["integer", "number"], ["string", "null"], ["integer", "string", "boolean"]):
        add("type", {"type": tl}, "generic")
    add("type", {"type": ["object", "null"], "title": "Obj"}, "generic")
    add("type", {"type": ["array", "object"], "title": "Obj"}, "generic")
    for c in (1, True, 1.0, 0, False, None, "a", [], [1], [True], {"a": 1}, {"a": True}, {}):
        add("const", {"const": c}, "generic")
    for e in ([1], [True, "a"], [0, None], [[1], {"a": True}], [1.0, "b", False]):
        add("enum", {"enum": e}, "generic")
    # arrays
    for s in (True, False, {}, {"type": "integer"}, {"const": 1}, {"type": "string"}):
        add("items", {"items": s}, "array")
    for s in ([{"type": "integer"}], [{"type": "integer"}, {"type": "string"}], [True, False], [{}, {"const": 1}]):
        add("items", {"items": s}, "array")
    for s in (True, False, {"type": "integer"}):
        add("additionalItems", {"additionalItems": s}, "array")
    for n in (0, 1, 2):
        add("minItems", {"minItems": n}, "array")
        add("maxItems", {"maxItems": n}, "array")
    add("uniqueItems", {"uniqueItems": True}, "array")
    add("uniqueItems", {"uniqueItems": False}, "array")
    for s in (True, False, {"type": "integer"}, {"const": 1}, {"minimum": 2}):
        add("contains", {"contains": s}, "array")
    # numeric
    for kw in ("minimum", "maximum", "exclusiveMinimum", "exclusiveMaximum"):
        for n in (0, 1, 1.5):
            add(kw, {kw: n}, "numeric")
    for n in (2, 0.5, 1.5, 2.0):
        add("multipleOf", {"multipleOf": n}, "numeric")
    # string
    for f in ("uuid", "date-time", "x-unregistered"):
        add("format", {"format": f}, "string")
    for p in ("^a", "b$", "[0-9]"):
        add("pattern", {"pattern": p}, "string")
    for n in (0, 1, 2):
        add("minLength", {"minLength": n}, "string")
        add("maxLength", {"maxLength": n}, "string")
    # object
    for r in ([], ["a"], ["a", "b"], ["c"]):
        add("required", {"required": r}, "object")
    for p in (
        {"a": {}},
        {"a": {"type": "integer"}},
        {"a": False},
        {"a": {"type": "integer"}, "b": {"type": "string"}},
        {"a": {"default": 1}},
        {"a": {"type": "integer", "default": 1}},
        {"a": {"type": "integer", "default": "x"}},
        {"a b": {"type": "integer"}},
        {"class": {"type": "integer"}},
        {"a": {"required": ["a"]}},
        {"a": {"const": 1}},
        {"a": True, "c": {"type": "null"}},
        {"a": {"type": "number"}},
        {"a": {"type": "object", "title": "Inner", "properties": {"x y": {"default": 1}, "n": {"type": "number"}}}},
    ):
        add("properties", {"properties": p}, "object")
    for p in (
        {"^a": {"type": "integer"}},
        {"^a": False},
        {"b$": {"type": "string"}},
        {"^a": {"minimum": 2}, "b$": {"type": "integer"}},
        {"^a": {"type": "integer"}, "b$": {"minimum": 10}, "^ab": {"maximum": 0}},  # {"ab": 1} passes the first and fails the others
        {"[0-9]": True},
        {"^a": {}},
    ):
        add("patternProperties", {"patternProperties": p}, "object")
    for s in (True, False, {"type": "integer"}, {"const": 1}):
        add("additionalProperties", {"additionalProperties": s}, "object")
    for n in (0, 1, 2):
        add("minProperties", {"minProperties": n}, "object")
        add("maxProperties", {"maxProperties": n}, "object")
    for s in (True, False, {"pattern": "^a"}, {"maxLength": 1}, {"const": "a"}):
        add("propertyNames", {"propertyNames": s}, "object")
    for d in (
        {"a": ["b"]},
        {"a": []},
        {"a": {"required": ["b"]}},
        {"a": False},
        {"a": True},
        {"a": ["b"], "b": ["a"]},
        {"a": {"properties": {"b": {"type": "integer"}}}},
        {"a": ["b"], "c": ["a", "d"]},
        {"a": {"required": ["z"]}, "b": ["c"]},
    ):
        add("dependencies", {"dependencies": d}, "object")
    # composition
    branches = (
        [{"type": "integer"}],
        [{"type": "integer"}, {"type": "string"}],
        [{"minimum": 2}, {"type": "integer"}],
        [True],
        [False],
        [True, True],
        [{"const": 1}, {"const": True}],
        [{"required": ["a"]}, {"minLength": 2}],
    )
    for kw in ("anyOf", "oneOf", "allOf"):
        for b in branches:
            add(kw, {kw: b}, "composition")
    for s in (True, False, {}, {"type": "integer"}, {"const": 1}, {"required": ["a"]}):
        add("not", {"not": s}, "composition")
    for d in (1, "x"):
        add("default", {"default": d}, "generic")
    add("description", {"description": "some text"}, "generic")
    add("$comment", {"$comment": "c"}, "generic")
    add("examples", {"examples": [1, "a"]}, "generic")
    add("x-unknown", {"x-unknown": {"type": "string"}}, "generic")
    for i, a in enumerate(A):
        a["i"] = i
    return A


ATOMS = _atoms()
N = len(ATOMS)
GROUPS = {
    "object": [a["i"] for a in ATOMS if a["group"] in ("object",) or a["kw"] in ("type", "const", "default")],
    "array": [a["i"] for a in ATOMS if a["group"] in ("array",) or a["kw"] in ("type", "const")],
    "numeric": [a["i"] for a in ATOMS if a["group"] in ("numeric",) or a["kw"] in ("type", "const", "enum")],
    "string": [a["i"] for a in ATOMS if a["group"] in ("string",) or a["kw"] in ("type", "const", "enum")],
    "composition": [a["i"] for a in ATOMS if a["group"] in ("composition",) or a["kw"] in ("type", "default", "required", "properties")],
}


def schema_of(idxs):
    """Merge the fragments of the atoms with these indices (None if two share a keyword)."""
    out = {}
    kws = set()
    for i in idxs:
        a = ATOMS[i]
        if a["kw"] in kws:
            return None
        kws.add(a["kw"])
        for k, v in a["frag"].items():
            out[k] = copy.deepcopy(v)
    return out


def compatible(i, j):
    return ATOMS[i]["kw"] != ATOMS[j]["kw"]


WRAPPERS = [
    "items", "items0", "items1", "contains", "properties.a", "patternProperties.^a", "additionalProperties",
    "propertyNames", "dependencies.a", "anyOf0", "oneOf0", "allOf0", "not", "sibling",
]


def wrap(position, s):
    """Place schema s at one sub-schema position of a fresh outer schema."""
    s = copy.deepcopy(s)
    if position == "items":
        return {"items": s}
    if position == "items0":
        return {"items": [s]}
    if position == "items1":
        return {"items": [{}], "additionalItems": s}
    if position == "additionalItems":
        return {"items": [{}], "additionalItems": s}
    if position == "contains":
        return {"contains": s}
    if position == "properties.a":
        return {"properties": {"a": s}}
    if position == "patternProperties.^a":
        return {"patternProperties": {"^a": s}}
    if position == "additionalProperties":
        return {"additionalProperties": s}
    if position == "propertyNames":
        return {"propertyNames": s}
    if position == "dependencies.a":
        return {"dependencies": {"a": s}}
    if position == "anyOf0":
        return {"anyOf": [s, {"type": "null"}]}
    if position == "oneOf0":
        return {"oneOf": [s, {"type": "null"}]}
    if position == "allOf0":
        return {"allOf": [s, {}]}
    if position == "not":
        return {"not": s}
    if position == "sibling":
        return {"type": ["integer", "string", "array", "object", "null"], "title": "Sib", "anyOf": [s]}
    raise KeyError(position)


def lift_position(position):
    """Which value-lifting family a wrapper needs (see gen.values.lift)."""
    return {
        "items": "items", "items0": "items", "items1": "items", "contains": "items",
        "properties.a": "properties.a", "patternProperties.^a": "properties.a",
        "additionalProperties": "properties.a", "dependencies.a": "properties.a",
        "propertyNames": "propertyNames",
    }.get(position, "root")


def canon(schema):
    return json.dumps(schema, sort_keys=True)


def depth1():
    for i in range(N):
        yield (i,)


def depth2_from(i):
    for j in range(i + 1, N):
        if compatible(i, j):
            yield (i, j)


def depth3_from(i, j, pool=None):
    rng = range(j + 1, N) if pool is None else [k for k in pool if k > j]
    for k in rng:
        if compatible(i, k) and compatible(j, k):
            yield (i, j, k)


def pairs(pool=None):
    rng = range(N) if pool is None else pool
    for i, j in itertools.combinations(rng, 2):
        if compatible(i, j):
            yield (i, j)
