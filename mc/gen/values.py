"""Value alphabet V (simplest first) and its lifting under wrappers."""

UUID = "123e4567-e89b-12d3-a456-426614174000"
TIMESTAMP = "2020-02-29T23:59:59Z"

V = [
    None, True, False, 0, 1, 2, -1, 3, 4, 1.0, 0.5, 1.5, 2.5, 0.0,
    "", "a", "b", "ab", "abc", "1", "\U0001f4a9", UUID, TIMESTAMP,
    [], [1], [1, 1], [1, 2], [2, 3], [1, True], [0, False], [1, 1.0], ["a"], [1, "a"], [1, "a", None],
    [[1], [True]], [[1], [1]], [{"a": 1}, {"a": True}], [{"a": 1}, {"a": 1.0}],
    {}, {"a": 1}, {"a": True}, {"a": 1.0}, {"a": "x"}, {"a": None}, {"b": 1}, {"ab": 1}, {"c": 1},
    {"a": 1, "b": 2}, {"a": 1, "b": "x"}, {"a": 1, "b": 2, "c": 3}, {"a": {"a": 1}}, {"a": [1]},
    {"a b": 1, "a_b": 2}, {"class": 1}, {"a": 2, "b": 1}, {"1": 1},
    # the empty member name, alone and after another member; numbers far from the small keyword parameters
    {"": 1}, {"a": 1, "": 2}, 1000000000.25, 30000000001, 4503599627370497, 9007199254740993, 2 ** 1023, -(2 ** 1023), -1000000000.25, "a" * 40, list(range(12)),
    # strings that are not in Unicode normal form: 2 code points composing to 1, and 1 code point decomposing to 2
    "e\u0301", "\u0958", {"e\u0301": 1},
    # arrays of arrays that are neither ascending nor free of duplicates once sorted
    [[3], [1], [2]], [[2, 1], [1, 2], [2, 1]],
]

# a smaller probe set for histories / schedules (one witness per JSON type + lookalikes)
V_SMALL = [None, True, 1, 1.0, 2.5, "a", "ab", [], [1, "a"], [1, True], {}, {"a": 1}, {"a": "x", "b": 2}, {"c": 1}]


def lift(position, values=None):
    """Values aimed *through* a wrapper position so the inner schema sees each v."""
    vs = V if values is None else values
    out = []
    if position in ("items", "contains", "items0", "additionalItems", "items1"):
        out.extend([[], 1, "a", {}])
        for v in vs:
            out.append([v])
        for v in vs[:20]:
            out.append([1, v])
            out.append([v, 1])
        return out
    if position in ("properties.a", "patternProperties.^a", "additionalProperties", "dependencies.a"):
        out.extend([{}, 1, "a", []])
        for v in vs:
            out.append({"a": v})
        for v in vs[:20]:
            out.append({"a": v, "b": 1})
            out.append({"b": v})
        return out
    if position == "propertyNames":
        out.extend([{}, 1, "a", []])
        for k in ("", "a", "b", "ab", "abc", "1", "a b", "class", UUID):
            out.append({k: 1})
        out.append({"a": 1, "b": 2})
        out.append({"ab": 1, "1": 2})
        return out
    return list(vs)

# extra object/array values aimed at the DSL-built classes of gen/elements.py
V_OBJ = [
    {"k": 1, "a": 1, "b": "s", "a b": "x"}, {"k": 1, "a": 1, "b": "s", "a b": 5}, {"k": 1, "a": 1, "b": "s", "a_b": "x"},
    {"class": 1}, {"class": "x"}, {"title": "t"}, {"author": "a"}, {"title": "t", "author": "a"}, {"title": 1, "note": "n"},
    {"a": 1, "b": "s"}, {"b": "s"}, {"a": "x", "b": "s"}, {"class": 1, "a b": "x"}, {"a b": "x", "c": [1]}, {"a b": "x", "class_": 9},
    {"k": 1, "b": 2}, {"k": 1, "b": 2, "d": 4}, {"b": 2}, {"a": 1, "b": "s", "x1": 2}, {"a": 1, "b": "s", "x1": "n"}, {"abcd": 1},
    {"a": 1, "sx": "v", "at": "long", "zz": 3}, {"a": {"x": [1]}, "q": "notint"}, {"a": 1}, {"a": True},
    {"inner": {"w": "x"}}, {"inner": {"w": "x", "v": 2}, "inners": [{"w": "y"}, {"w": "z", "v": 0}], "opt": {"w": "q"}}, {"inner": {}},
    {"left": {"n": 1}, "right": [{"n": 2}, 3, {"n": 1.5}], "extra": {"n": 0}}, {"left": {"n": "x"}},
    {"k": 0, "a": 1, "b": "s"}, {"k": 0, "a": 1}, {"a": "s", "b": True, "c": None}, {"a": "s", "zq": "w"}, {"a": "s", "other": 1},
    {"u": "ab", "o": 3, "al": 2, "n": 1, "arr": [1, ["a"]]}, {"o": 0.5}, {"o": 1.5}, {"o": 3, "n": "str"},
    {"z": 1, "a b": 2}, {"z": 1, "a b": 2, "class": 3}, {"a": 3, "ab": "s"}, {"a": 1, "ab": "s", "q": True}, {"zz": 1},
    {"a": 1, "b": 2, "c": 3}, {"a": 1, "c": 3}, {"c": 1, "a": 2, "b": 3}, {"d": 1},
    [1, "a"], [1, "a", 2], [1, "a", "b"], [1], ["a", 1], [[1.5, 2], []], [1, True], [1, True, None], [3, 1], [1, 1],
    [{"a": 1, "b": "s"}], [{"inner": {"w": "x"}}],
    {"default": 1, "const": {"type": "t"}, "enum": ["a"], "items": True, "title": 1}, {"default": 1}, {"default": -1, "const": {}}, {"const": {"type": 1}}, {"enum": [1]}, {"enum2": "x"}, {"const": {}, "default": 0, "items": {"type": "t"}}, {"items": {"type": 1}},
    [1, 2.5], [{"class": 1, "a b": "x"}], [[1, 2], [3.5]], {"a": 1, "": 2, "sx": "v"}, {"zz": 3, "": 1},
    {"cfg": {}}, {"cfg": {"x": 1}, "other": {}}, {"tag": "t"}, {"legacy": 1},
    {"num": 1}, {"num": 2, "base": {"a": 5}, "sub": {"class": 1}}, {"num": 1.5, "sub": {}}, {"n": 3, "o": {"x y": 2}}, {"n": 3, "o": {}}, {"n": -1},
]
