"""Document family `Docs`: root schema + definitions (+ sibling file) as a product of small dimensions."""
import copy
import itertools
import json

PAYLOADS = [
    ("empty", {}),
    ("props", {"properties": {"a": {"type": "integer"}, "b": {"type": "string"}}, "required": ["a"]}),
    ("renamed", {"properties": {"a b": {"type": "integer"}, "class": {"type": "string", "default": "c"}, "a_b": {"type": "null"}}, "required": ["class"]}),
    ("defaults", {"properties": {"n": {"type": "number", "default": 0}, "l": {"type": "array", "items": {"type": "integer"}, "default": []}, "f": {"type": "boolean", "default": False}}}),
    ("ctor-defaults", {"properties": {"t": {"type": "array", "items": [{"type": "integer"}], "additionalItems": True, "uniqueItems": False}}, "additionalProperties": True}),
    ("closed", {"properties": {"a": {"const": 1}}, "additionalProperties": False, "minProperties": 1}),
    ("patterns", {"patternProperties": {"^x": {"type": "integer"}}, "additionalProperties": {"type": "string"}, "propertyNames": {"maxLength": 3}}),
    ("deps", {"dependencies": {"a": ["b"], "c": {"required": ["d"]}}, "maxProperties": 4}),
    ("literals", {"properties": {"k": {"enum": [1, True, "1", None]}, "c": {"const": {"a": [1, True]}}, "d": {"const": {"tags": [{"name": "x"}], "m": [[{"y": 0}]]}}, "e2": {"enum": [[{"x": 0}], {"l": [{"q": [{"r": 1}]}]}]}}, "default": {"k": 1, "nest": [{"a": [{"b": 1}]}]}}),
    ("union", {"properties": {"u": {"type": ["integer", "string"], "minimum": 1}, "v": {"anyOf": [{"type": "integer"}, {"type": "array", "items": {"type": "string"}}]}}}),
    ("compat-names", {"properties": {"\ufb01le": {"type": "string"}, "\uff2b": {"type": "integer"}, "\u00b5": {"type": "null"}}, "required": ["\ufb01le"], "additionalProperties": False}),
    ("nested-property-keywords", {"dependencies": {"cc": {"properties": {"n": {"type": "integer"}}, "required": ["n"]}}, "additionalProperties": {"properties": {"z": {"type": "string"}}}, "patternProperties": {"^q": {"properties": {"w": {}}}}}),
    ("multi-key-literals", {"properties": {"o": {"default": {"b": 1, "a": 2, "c": {"z": 0, "y": 1}}}, "e": {"enum": [{"x": 1, "y": 2, "w": 3}, "s"]}, "c": {"const": {"k2": None, "k1": [1], "k0": True}}}, "default": {"o": {"q": 1, "p": 2}}}),
    ("additionalItems-class", {"properties": {"t": {"type": "array", "items": {"type": "string"}, "additionalItems": {"type": "object", "title": "OnlyHere", "properties": {"n": {"type": "number"}}}}, "u": {"additionalItems": {"type": "array", "items": {"type": "object", "title": "AlsoOnlyHere"}}}}}),
    ("required-with-default", {"properties": {"a": {"type": "integer", "default": 1}, "b": {"type": "string"}}, "required": ["a", "b"]}),
    ("keyword-named-members", {"properties": {"examples": {"type": "array", "items": {"type": "string"}}, "$comment": {"type": "string"}, "$schema": {"type": "integer"}, "title": {"type": "string"}, "description": {"type": "null"}, "type": {"enum": ["t"]}, "definitions": {"type": "object", "title": "Defs", "properties": {"examples": {"type": "integer"}}}, "$id": {"type": "boolean"}}, "required": ["examples"]}),
    ("bare-list", {"properties": {"l": {"type": "array"}, "m": {"type": "array", "items": [{"type": "integer"}, {"type": "string"}]}}}),
]
DESCRIPTIONS = [None, "plain description", 'with "quotes" and \\ backslash', "two\nlines", "trailing newline\n", "  leading blanks", "first\n    indented continuation\n    lines\n", "tab\there ", " ", ""]


def obj(payload, title=None, description=None):
    s = {"type": "object", **copy.deepcopy(payload)}
    if title is not None:
        s["title"] = title
    if description is not None:
        s["description"] = description
    return s


def ref_shapes():
    """Each shape: f(P, Q, titles) -> (root doc, extra files).  titles = (t_root, t_p, t_q) or Nones."""
    S = []

    def t(titles, i):
        return None if titles is None else titles[i]

    S.append(("no-ref", lambda P, Q, T: ({**obj(P, t(T, 0)), "properties": {**P.get("properties", {}), "inner": obj(Q, t(T, 1))}}, None)))
    S.append(("local-ref-once", lambda P, Q, T: ({**obj({}, t(T, 0)), "properties": {"p": {"$ref": "#/definitions/p"}}, "definitions": {"p": obj(P, t(T, 1))}}, None)))
    S.append(("same-ref-twice", lambda P, Q, T: ({**obj({}, t(T, 0)), "properties": {"p1": {"$ref": "#/definitions/p"}, "p2": {"$ref": "#/definitions/p"}, "arr": {"type": "array", "items": {"$ref": "#/definitions/p"}}}, "definitions": {"p": obj(P, t(T, 1))}}, None)))
    S.append(("chain", lambda P, Q, T: ({**obj({}, t(T, 0)), "properties": {"a": {"$ref": "#/definitions/a"}}, "definitions": {"a": {**obj({}, t(T, 1)), "properties": {"b": {"$ref": "#/definitions/b"}}}, "b": {**obj({}, t(T, 2)), "properties": {"c": {"$ref": "#/definitions/c"}}}, "c": obj(P, None)}}, None)))
    S.append(("ref-under-items", lambda P, Q, T: ({"type": "array", "items": {"$ref": "#/definitions/p"}, "definitions": {"p": obj(P, t(T, 1))}}, None)))
    S.append(("ref-under-additionalProperties", lambda P, Q, T: ({**obj({}, t(T, 0)), "additionalProperties": {"$ref": "#/definitions/p"}, "definitions": {"p": obj(P, t(T, 1)), "q": obj(Q, t(T, 2))}}, None)))
    S.append(("ref-under-anyOf", lambda P, Q, T: ({"anyOf": [{"$ref": "#/definitions/p"}, {"$ref": "#/definitions/q"}, {"type": "null"}], "definitions": {"p": obj(P, t(T, 1)), "q": obj(Q, t(T, 2))}}, None)))
    S.append(("ref-under-patternProperty", lambda P, Q, T: ({**obj({}, t(T, 0)), "patternProperties": {"^p": {"$ref": "#/definitions/p"}}, "definitions": {"p": obj(P, t(T, 1))}}, None)))
    S.append(("ref-to-non-object", lambda P, Q, T: ({**obj(P, t(T, 0)), "properties": {**P.get("properties", {}), "s": {"$ref": "#/definitions/s"}, "o": obj(Q, t(T, 1))}, "definitions": {"s": {"type": "string", "minLength": 1}}}, None)))
    S.append(("unreferenced-definition", lambda P, Q, T: ({**obj(P, t(T, 0)), "definitions": {"unused": obj(Q, t(T, 1)), "also": {"type": "array", "items": obj({}, t(T, 2))}}}, None)))
    S.append(("cross-file", lambda P, Q, T: ({**obj({}, t(T, 0)), "properties": {"r": {"$ref": "other.json#/definitions/p"}, "l": obj(Q, t(T, 2))}}, {"other.json": {"definitions": {"p": obj(P, t(T, 1))}}})))
    S.append(("cross-file-back", lambda P, Q, T: ({**obj({}, t(T, 0)), "properties": {"r": {"$ref": "other.json#/definitions/p"}}, "definitions": {"home": obj(Q, t(T, 2))}}, {"other.json": {"definitions": {"p": {**obj({}, t(T, 1)), "properties": {"h": {"$ref": "root.json#/definitions/home"}}}}}})))
    S.append(("composition-objects", lambda P, Q, T: ({"type": "object", **({"title": T[0]} if T else {}), "anyOf": [obj(P, t(T, 1))], "oneOf": [obj(Q, t(T, 2)), {"type": "null"}], "allOf": [obj({}, t(T, 1))]}, None)))
    # same title on DIFFERENT objects in tuple positions / additionalItems and on a sibling property
    S.append(("tuple-items-same-title", lambda P, Q, T: ({**obj({}, t(T, 0)), "properties": {
        "pair": {"type": "array", "items": [obj(P, "Point"), obj(Q, "Point"), {"type": "integer"}], "additionalItems": obj({"properties": {"zz": {"type": "null"}}}, "Point")},
        "lone": obj({"properties": {"only": {"type": "string"}}}, "Point"),
    }}, None)))
    # two differently titled objects of identical shape, each reachable only through an otherwise equal wrapper
    S.append(("equal-wrappers", lambda P, Q, T: ({**obj({}, t(T, 0)), "properties": {
        "xs": {"type": "array", "items": obj(P, t(T, 1) or "Cat")}, "ys": {"type": "array", "items": obj(P, t(T, 2) or "Dog")},
        "xo": {"anyOf": [obj(Q, "Left"), {"type": "null"}]}, "yo": {"anyOf": [obj(Q, "Right"), {"type": "null"}]},
    }}, None)))
    # two objects with ONE title that differ only in a bool-vs-number literal / in a nested default: must stay two classes
    S.append(("lookalike-twins", lambda P, Q, T: ({**obj({}, t(T, 0)), "properties": {
        "one": {**obj(P, "Twin"), "properties": {**P.get("properties", {}), "k": {"const": 1}, "d": {"default": [0]}}},
        "two": {**obj(P, "Twin"), "properties": {**P.get("properties", {}), "k": {"const": True}, "d": {"default": [False]}}},
        "three": {**obj(P, "Twin"), "properties": {**P.get("properties", {}), "k": {"const": 1}, "d": {"default": [0]}}},
    }}, None)))
    return S


TITLE_SHAPES = [
    ("untitled", None),
    ("titled", ("Root", "Alpha", "Beta")),
    ("same-title", ("Root", "Dup", "Dup")),
    ("camel", ("root thing", "alpha_beta gamma", "delta-Epsilon")),
    ("collides-with-autotitle", ("Root", "p", "q")),
    ("all-same", ("Same", "Same", "Same")),
    ("reserved-duplicates", ("Object", "List", "List")),
    ("suffix-duplicates", ("Dup_1", "Dup_1", "Dup")),
]


def documents(tier="quick"):
    """-> list of (label, doc, extra)"""
    out = []
    shapes = ref_shapes()
    pay = PAYLOADS
    for (sname, make), (tname, titles) in itertools.product(shapes, TITLE_SHAPES):
        if tier == "quick":
            pairs = [(pay[i], pay[(i * 3 + 1) % len(pay)]) for i in range(len(pay))] + [(pay[1], pay[1]), (pay[2], pay[2])]
        else:
            pairs = list(itertools.product(pay, pay))
        for (pn, P), (qn, Q) in pairs:
            doc, extra = make(P, Q, titles)
            out.append(("%s/%s/%s+%s" % (sname, tname, pn, qn), doc, extra))
    # descriptions on titled documents
    for d in DESCRIPTIONS[1:]:
        for sname, make in shapes[:3]:
            doc, extra = make(pay[1][1], pay[3][1], ("Root", "Alpha", "Beta"))
            doc = copy.deepcopy(doc)
            doc["description"] = d
            for dd in doc.get("definitions", {}).values():
                if isinstance(dd, dict) and dd.get("type") == "object":
                    dd["description"] = d + " (def)"
            out.append(("%s/described/%r" % (sname, d), doc, extra))
    return out


def strip_autotitles(node):
    if isinstance(node, dict):
        return {k: strip_autotitles(v) for k, v in node.items() if k != "_x_autotitle"}
    if isinstance(node, list):
        return [strip_autotitles(v) for v in node]
    return node
