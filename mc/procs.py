"""E4: exhaustive enumeration of a configuration space, one interpreter process per configuration.

The only way a string-hash seed can influence a Python program is through the iteration order of hash-ordered
containers.  For a panel of probe sets (the library's own set of composition keywords, plus 2- and 3-element sets of
the strings that occur in the document family) concrete PYTHONHASHSEED values are searched until every permutation of
every probe set is realised (or the seed cap is hit; the coverage actually reached is reported).
"""
import itertools
import json
import os
import subprocess
import sys

PY = sys.executable


def env_for(seed, repo):
    env = dict(os.environ)
    env["PYTHONHASHSEED"] = str(seed)
    env["PYTHONDONTWRITEBYTECODE"] = "1"
    return env


_PROBE_SRC = r"""
import json, sys
sets = json.loads(sys.argv[1])
print(json.dumps([list(set(s)) for s in sets]))
"""


def orders_for_seed(seed, probe_sets):
    out = subprocess.run([PY, "-c", _PROBE_SRC, json.dumps(probe_sets)], env=env_for(seed, None), capture_output=True, text=True, check=True)
    return [tuple(o) for o in json.loads(out.stdout)]


def select_seeds(probe_sets, must_cover, search=range(0, 120), cap=12, pool=None):
    """Greedy: pick seeds until every permutation of every probe set is realised.  `must_cover` (indices of probe sets)
    must be covered completely; returns (seeds, coverage dict)."""
    wanted = {}
    for i, s in enumerate(probe_sets):
        for perm in itertools.permutations(sorted(s)):
            wanted[(i, perm)] = None
    results = {}
    mapper = pool.map if pool else map
    seeds = list(search)
    for seed, orders in zip(seeds, mapper(_orders_star, [(s, probe_sets) for s in seeds])):
        results[seed] = {(i, o) for i, o in enumerate(orders)}
    chosen, covered = [], set()
    must = {k for k in wanted if k[0] in must_cover}
    while True:
        best, gain = None, 0
        for seed, real in results.items():
            if seed in chosen:
                continue
            g = len((real & set(wanted)) - covered)
            g += 1000 * len((real & must) - covered)
            if g > gain:
                best, gain = seed, g
        if best is None:
            break
        if len(chosen) >= cap and must <= covered:
            break
        chosen.append(best)
        covered |= results[best] & set(wanted)
        if covered >= set(wanted):
            break
        if len(chosen) >= cap * 3:
            break
    return sorted(chosen), {"permutations_wanted": len(wanted), "permutations_realised": len(covered), "must_cover_complete": must <= covered, "seeds_searched": len(seeds)}


def _orders_star(args):
    return orders_for_seed(*args)
