"""Common runner: sharding over processes, evidence, replay files, known findings.

Every check module exposes

    PROP   = "C01"
    LEVEL  = "model_checking"
    def plan(tier, seed) -> {"items": [...], "meta": {...}}      # picklable work items, simplest first
    def work(item) -> Stats                                     # runs in a worker process
    def replay(case) -> list[violation]                          # re-run exactly one case, no explorer
    def finish(stats, plan_meta) -> dict                         # extra coverage keys / post-run oracle (optional)

A violation is {"key": <root-cause class>, "what": <one line>, "case": <jsonable>}.
`key` is produced by narrow classifier predicates inside the check; a violation no
predicate recognises gets key "unclassified:<hash>" and can therefore never be
silenced by known_findings.json.
"""
import argparse
import collections
import hashlib
import json
import math
import multiprocessing
import os
import sys
import time
import traceback

VERIF = os.path.dirname(os.path.dirname(os.path.abspath(__file__)))
REPO = os.environ.get("VERIF_REPO", "/repo")
DEPS = os.path.join(VERIF, ".deps")
KNOWN = os.path.join(VERIF, "known_findings.json")
MAX_VIOL_PER_KEY = 3
MAX_SAMPLES = 8


def setup_paths():
    if REPO in sys.path:
        sys.path.remove(REPO)
    sys.path.insert(0, REPO)
    if VERIF not in sys.path:
        sys.path.insert(1, VERIF)
    if DEPS not in sys.path:
        sys.path.append(DEPS)


setup_paths()


# --------------------------------------------------------------------------- jsonable
def jsonable(x, depth=0):
    """Lossy but total conversion to something json.dumps accepts."""
    if depth > 12:
        return "<deep>"
    if x is None or isinstance(x, (bool, str)):
        if isinstance(x, str):
            try:
                x.encode("utf8")
                return x if len(x) < 400 else x[:200] + f"...<len {len(x)}>"
            except UnicodeEncodeError:
                return "<str %s>" % ascii(x)[:300]
        return x
    if isinstance(x, int):
        if abs(x) < 2 ** 63:
            return x
        if x.bit_length() > 4000:
            # beyond the interpreter's int -> str conversion limit for long decimal strings
            return "<int %d bits %s...>" % (x.bit_length(), hex(x)[:18])
        return "<int %s>" % (str(x)[:20] + "..." if len(str(x)) > 40 else str(x))
    if isinstance(x, float):
        return x if math.isfinite(x) else "<float %r>" % x
    if isinstance(x, (list, tuple)):
        return [jsonable(i, depth + 1) for i in x]
    if isinstance(x, dict):
        return {str(k) if not isinstance(k, str) else jsonable(k): jsonable(v, depth + 1) for k, v in x.items()}
    if isinstance(x, (set, frozenset)):
        return sorted((jsonable(i, depth + 1) for i in x), key=repr)
    return "<%s %s>" % (type(x).__name__, repr(x)[:200])


def safe_repr(x, limit=200):
    try:
        return repr(x)[:limit]
    except Exception:
        return json.dumps(jsonable(x), default=str)[:limit]


def short_hash(obj):
    return hashlib.sha1(json.dumps(jsonable(obj), sort_keys=True, default=repr).encode()).hexdigest()[:12]


# --------------------------------------------------------------------------- stats
class Stats:
    """Mergeable counters returned by workers."""

    def __init__(self):
        self.c = collections.Counter()  # states, transitions, evaluations, traces, nontrivial + free counters
        self.outcomes = collections.Counter()
        self.violations = {}  # key -> list of (rank, violation)
        self.vcount = collections.Counter()
        self.samples = []
        self.notes = collections.Counter()
        self.sets = collections.defaultdict(set)  # named sets merged by union (e.g. distinct state hashes)

    def add(self, name, n=1):
        self.c[name] += n

    def outcome(self, name, n=1):
        self.outcomes[name] += n

    def sample(self, s):
        if len(self.samples) < MAX_SAMPLES:
            self.samples.append(jsonable(s))

    def violation(self, key, what, case, rank=0):
        self.vcount[key] += 1
        lst = self.violations.setdefault(key, [])
        entry = (rank, {"key": key, "what": what, "case": jsonable(case)})
        lst.append(entry)
        lst.sort(key=lambda e: (e[0], len(json.dumps(e[1]["case"], default=repr))))
        del lst[MAX_VIOL_PER_KEY:]

    def merge(self, other):
        self.c.update(other.c)
        self.outcomes.update(other.outcomes)
        self.vcount.update(other.vcount)
        self.notes.update(other.notes)
        for k, s in other.sets.items():
            self.sets[k] |= s
        for k, lst in other.violations.items():
            mine = self.violations.setdefault(k, [])
            mine.extend(lst)
            mine.sort(key=lambda e: (e[0], len(json.dumps(e[1]["case"], default=repr))))
            del mine[MAX_VIOL_PER_KEY:]
        for s in other.samples:
            if len(self.samples) < MAX_SAMPLES:
                self.samples.append(s)
        return self


# --------------------------------------------------------------------------- worker plumbing
_MODULE = None
_TIER = None


def _work(indexed):
    idx, item = indexed
    try:
        st = _MODULE.work(item)
        return idx, st, None
    except BaseException:  # reported by the parent
        return idx, None, traceback.format_exc()


def _work_pristine(args):
    """One work item in a process forked from a fork server that has imported the library but never used it: module-level
    state of the library (caches, hoisted constants, registries) is as after `import`, whatever ran before in this check."""
    modname, tier, seed, idx, item = args
    try:
        import importlib

        mod = importlib.import_module(modname)
        if hasattr(mod, "_TIER"):
            mod._TIER[0] = tier
        if hasattr(mod, "_SEED"):
            mod._SEED[0] = seed
        st = mod.work(item)
        return idx, st, None
    except BaseException:
        return idx, None, traceback.format_exc()


def run_pristine(module, tier, seed, pristine, jobs):
    modname = getattr(getattr(module, "__spec__", None), "name", None) or module.__name__
    ctx = multiprocessing.get_context("forkserver")
    ctx.set_forkserver_preload([modname, "statham.schema.parser", "statham.serializers", "statham.titles", "json_ref_dict"])
    pool = ctx.Pool(max(1, min(jobs, len(pristine))), maxtasksperchild=1)
    try:
        for res in pool.imap_unordered(_work_pristine, [(modname, tier, seed, 10 ** 6 + i, it) for i, it in enumerate(pristine)]):
            yield res
    finally:
        pool.terminate()
        pool.join()


def load_known(prop):
    try:
        with open(KNOWN) as fh:
            data = json.load(fh)
    except FileNotFoundError:
        return {}
    out = {}
    for e in data.get("findings", []):
        if e.get("property") == prop and e.get("status") == "known":
            out[e["key"]] = e
    return out


def write_replay(prop, viol):
    os.makedirs(os.path.join(VERIF, "replays"), exist_ok=True)
    path = os.path.join(VERIF, "replays", "%s-%s.json" % (prop, short_hash([viol["key"], viol["case"]])))
    with open(path, "w") as fh:
        json.dump({"property": prop, **viol}, fh, indent=1, sort_keys=True, default=repr)
    return path


def validate_evidence(ev):
    try:
        import jsonschema  # from .deps

        with open("/root/.vp/EVIDENCE.schema.json") as fh:
            schema = json.load(fh)
        jsonschema.Draft202012Validator(schema).validate(ev)
    except (ImportError, FileNotFoundError):
        pass


def main(module, argv=None):
    global _MODULE, _TIER
    ap = argparse.ArgumentParser()
    ap.add_argument("--tier", default=os.environ.get("VERIF_TIER") or "quick", choices=["quick", "thorough"])
    ap.add_argument("--replay")
    ap.add_argument("--jobs", type=int, default=int(os.environ.get("VERIF_JOBS", "0")) or os.cpu_count() or 4)
    ap.add_argument("--no-evidence", action="store_true")
    args = ap.parse_args(argv)
    prop = module.PROP
    try:
        seed = int(os.environ.get("VERIF_SEED", "0") or 0)
    except ValueError:
        seed = 0

    if args.replay:
        with open(args.replay) as fh:
            rep = json.load(fh)
        viols = module.replay(rep["case"])
        if viols:
            for v in viols:
                print("REPLAY-FAIL property=%s key=%s %s" % (prop, v["key"], v["what"]))
                print(json.dumps(v["case"], indent=1, default=repr)[:4000])
            return 1
        print("REPLAY-PASS property=%s (the recorded case no longer violates)" % prop)
        return 0

    t0 = time.time()
    _MODULE, _TIER = module, args.tier
    plan = module.plan(args.tier, seed)
    items = list(enumerate(plan["items"]))
    total = Stats()
    harness_errors = []
    jobs = max(1, min(args.jobs, len(items)))
    if jobs == 1 or os.environ.get("VERIF_SERIAL"):
        results = map(_work, items)
        pool = None
    else:
        ctx = multiprocessing.get_context("fork")
        pool = ctx.Pool(jobs)
        results = pool.imap_unordered(_work, items, chunksize=plan.get("chunksize", 1))
    try:
        for idx, st, err in results:
            if err:
                harness_errors.append((idx, err))
                continue
            total.merge(st)
    finally:
        if pool:
            pool.terminate()
            pool.join()
    pristine = list(plan.get("pristine_items", []))
    if pristine:
        for idx, st, err in run_pristine(module, args.tier, seed, pristine, args.jobs):
            if err:
                harness_errors.append((idx, err))
                continue
            total.merge(st)
        total.c["pristine_process_items"] += len(pristine)

    extra = {}
    if hasattr(module, "finish"):
        extra = module.finish(total, plan.get("meta", {})) or {}

    known = load_known(prop)
    exit_code = 0
    lines = []
    n_unknown = 0
    for key in sorted(total.violations):
        first = total.violations[key][0][1]
        if key in known:
            lines.append("KNOWN-FINDING: property=%s %s — %s (x%d this run)" % (prop, key, known[key].get("what", first["what"]), total.vcount[key]))
        else:
            n_unknown += 1
            path = write_replay(prop, first)
            lines.append("VIOLATION property=%s replay=%s" % (prop, path))
            lines.append("  key=%s count=%d %s" % (key, total.vcount[key], first["what"]))
            exit_code = 1
    for idx, err in harness_errors[:3]:
        viol = {"key": "harness-exception", "what": err.strip().splitlines()[-1], "case": {"item_index": idx, "traceback": err}}
        path = write_replay(prop, viol)
        lines.append("VIOLATION property=%s replay=%s" % (prop, path))
        lines.append("  the check's own worker raised (library behaved outside anything the harness models): %s" % viol["what"])
        exit_code = 1

    wall = time.time() - t0
    c = total.c
    coverage = {
        "states": int(c.get("states", 0)),
        "transitions": int(c.get("transitions", 0)),
        "traces_validated_against_impl": int(c.get("traces", 0)),
        "evaluations": int(c.get("evaluations", 0)),
        "distinct_nontrivial": int(c.get("nontrivial", 0)),
        "rule": getattr(module, "RULE", ""),
        "samples": total.samples or [{"note": "no sample recorded"}],
        "exhaustive": bool(plan.get("meta", {}).get("exhaustive", False)) and not c.get("caps_hit", 0),
        "distinct_outcomes": len(total.outcomes),
        "outcomes": {k: int(v) for k, v in total.outcomes.most_common(40)},
        "counters": {k: int(v) for k, v in sorted(c.items()) if k not in ("states", "transitions", "traces", "evaluations", "nontrivial")},
        "bounds": plan.get("meta", {}),
        "work_items": len(items),
        "known_findings_seen": {k: int(total.vcount[k]) for k in total.violations if k in known},
        "unknown_violation_classes": n_unknown,
        "harness_errors": len(harness_errors),
    }
    coverage.update(extra)
    ev = {
        "property_id": prop,
        "tier": args.tier,
        "seed": seed,
        "level": getattr(module, "LEVEL", "model_checking"),
        "coverage": coverage,
        "assumptions": list(getattr(module, "ASSUMPTIONS", [])),
        "wall_s": round(wall, 2),
        "violations": n_unknown + len(harness_errors),
    }
    ev = json.loads(json.dumps(ev, default=repr))
    if not args.no_evidence:
        validate_evidence(ev)
        os.makedirs(os.path.join(VERIF, "evidence"), exist_ok=True)
        with open(os.path.join(VERIF, "evidence", prop + ".json"), "w") as fh:
            json.dump(ev, fh, indent=1, sort_keys=True)
    for ln in lines:
        print(ln)
    print(
        "%s tier=%s seed=%d states=%d transitions=%d evaluations=%d nontrivial=%d outcomes=%d wall=%.1fs %s"
        % (prop, args.tier, seed, coverage["states"], coverage["transitions"], coverage["evaluations"], coverage["distinct_nontrivial"], coverage["distinct_outcomes"], wall, "OK" if exit_code == 0 else "FAIL")
    )
    return exit_code
