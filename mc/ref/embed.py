"""C04 oracle: the accepted input is embedded, complete and unaltered, in the result.

Structural recursion on the *input*.  Branch-agnostic for untyped results (it does
not model which composition branch built a nested dict), so it demands less than
the statement there, never more.
"""
from mc import impl
from mc.ref.draft6 import json_eq

from statham.schema.constants import NotPassed
from statham.schema.elements.meta import ObjectMeta
from statham.schema.parser import _parse_attribute_name


def collect_defaults(schema, out=None):
    """Every literal that sits under a "default" key anywhere in the schema JSON."""
    if out is None:
        out = []
    if isinstance(schema, dict):
        for k, v in schema.items():
            if k == "default":
                out.append(v)
            collect_defaults(v, out)
    elif isinstance(schema, list):
        for v in schema:
            collect_defaults(v, out)
    return out


def plain(r):
    """Result -> plain JSON-ish data (model instances -> dict of their members)."""
    if isinstance(type(r), ObjectMeta):
        return {k: plain(v) for k, v in getattr(r, "_dict", {}).items() if not isinstance(v, NotPassed)}
    if isinstance(r, dict):
        return {k: plain(v) for k, v in r.items() if not isinstance(v, NotPassed)}
    if isinstance(r, list):
        return [plain(v) for v in r]
    return r


def sub_element(el, kind, key):
    """The element that (alone) validates and builds a member, when that is unambiguous from the real element tree."""
    from statham.schema.elements import Array, Element as El

    if el is None:
        return None
    try:
        if kind == "prop" and isinstance(el, ObjectMeta):
            import re

            for n, p in (el.properties or {}).items():
                if (p.source or n) == key:
                    # a declared property is built by its own element even when patternProperties also match its name
                    # (the library composes AllOf(declared, *patterns) and allOf returns its first member's result)
                    return p.element
            pats = getattr(el, "patternProperties", None)
            if isinstance(pats, dict) and any(re.search(p, key) for p in pats):
                return None
            add = getattr(el, "additionalProperties", True)
            return add if isinstance(add, El) else None
        if kind == "item" and type(el) is Array:
            if isinstance(el.items, El):
                return el.items
            if isinstance(el.items, list):
                if key < len(el.items):
                    return el.items[key]
                return el.additionalItems if isinstance(el.additionalItems, El) else None
    except Exception:
        return None
    return None


class Ctx:
    def __init__(self, schema):
        text = repr(schema)
        self.allow_float = "number" in text
        self.defaults = collect_defaults(schema)
        self.collision = False


def _is_default(ctx, val):
    if isinstance(val, NotPassed):
        return True
    p = plain(val)
    for d in ctx.defaults:
        if json_eq(p, d):
            return True
        # a default constructed through an object schema may itself have been filled with nested defaults
        if isinstance(d, dict) and isinstance(p, dict) and all(k in p and json_eq(p[k], d[k]) for k in d):
            return True
    return False


def embed(ctx, v, r, path, problems, el=None):
    from statham.schema.elements import Number

    if type(el) is Number and type(v) is int and type(r) is not float:
        try:
            if float(v) == v:  # an equal float exists (otherwise - beyond 2**53 or the float range - the integer must stay)
                problems.append("%s: integer %r accepted by a number schema came back as %r, not the equal float" % (path, v, r))
                return
        except OverflowError:
            pass
    if isinstance(el, ObjectMeta) and isinstance(v, dict) and not isinstance(r, el):
        problems.append("%s: object accepted by model class %s came back as %s %r" % (path, el.__name__, type(r).__name__, r))
        return
    if isinstance(r, NotPassed):
        problems.append("%s: input %r came back as the not-passed marker" % (path, v))
        return
    if isinstance(v, bool) or v is None or isinstance(v, str):
        if type(r) is not type(v) or r != v:
            problems.append("%s: %r came back as %r" % (path, v, r))
        return
    if isinstance(v, int):
        if type(r) is int and r == v:
            return
        if ctx.allow_float and type(r) is float and r == v:
            return
        problems.append("%s: %r came back as %r" % (path, v, r))
        return
    if isinstance(v, float):
        if type(r) is float and (r == v or (r != r and v != v)):
            return
        problems.append("%s: %r came back as %r" % (path, v, r))
        return
    if isinstance(v, list):
        if not isinstance(r, list) or len(r) != len(v):
            problems.append("%s: array %r came back as %r" % (path, v, r))
            return
        for i, (a, b) in enumerate(zip(v, r)):
            embed(ctx, a, b, "%s[%d]" % (path, i), problems, sub_element(el, "item", i))
        return
    if isinstance(v, dict):
        if isinstance(type(r), ObjectMeta):
            _embed_model(ctx, v, r, path, problems, el)
        elif isinstance(r, dict):
            _embed_untyped(ctx, v, r, path, problems)
        else:
            problems.append("%s: object %r came back as %r" % (path, v, r))
        return
    problems.append("%s: unexpected input type %r" % (path, type(v)))


def _note_collision(ctx, keys):
    """Predicate of the recorded design limit: two distinct input member names whose
    Python attribute names coincide, or one of which *is* the other's Python name."""
    keys = list(keys)
    for a in keys:
        pa = _parse_attribute_name(a)
        for b in keys:
            if a != b and (pa == b or pa == _parse_attribute_name(b)):
                ctx.collision = True
                return


def _embed_model(ctx, v, r, path, problems, el=None):
    if not isinstance(el, ObjectMeta):
        el = type(r)
    props = type(r).properties or {}
    by_source = {(p.source or n): n for n, p in props.items()}
    _note_collision(ctx, v.keys())
    d = getattr(r, "_dict", None)
    if not isinstance(d, dict):
        problems.append("%s: model instance without _dict" % path)
        return
    used = set()
    for k, sub in v.items():
        if k in by_source:
            name = by_source[k]
            try:
                got = getattr(r, name)
            except AttributeError:
                problems.append("%s: declared property %r not readable as attribute %r" % (path, k, name))
                continue
            used.add(name)
            embed(ctx, sub, got, "%s.%s" % (path, name), problems, sub_element(el, "prop", k))
            if name not in d:
                problems.append("%s: declared property %r missing from item view" % (path, k))
        else:
            try:
                got = r[k]
            except (KeyError, TypeError):
                problems.append("%s: additional member %r not readable by item access" % (path, k))
                continue
            used.add(k)
            embed(ctx, sub, got, "%s[%r]" % (path, k), problems, sub_element(el, "prop", k))
    for k, val in d.items():
        if k in used:
            continue
        if k in props:
            pel = props[k].element
            if isinstance(pel, ObjectMeta) and isinstance(type(val), ObjectMeta) and not isinstance(val, pel):
                problems.append("%s: omitted property %r holds an instance of %s, not of its own model %s" % (path, k, type(val).__name__, pel.__name__))
            if not _is_default(ctx, val):
                problems.append("%s: declared property %r not in input holds %r (neither default nor not-passed)" % (path, k, val))
        else:
            problems.append("%s: member %r invented (not in input, not declared)" % (path, k))


def _embed_untyped(ctx, v, r, path, problems):
    _note_collision(ctx, v.keys())
    used = set()
    for k, sub in v.items():
        cands = [c for c in (k, _parse_attribute_name(k)) if c in r and c not in used]
        best = None
        for c in cands:
            trial = []
            embed(ctx, sub, r[c], "%s[%r]" % (path, c), trial)
            if not trial:
                best = c
                break
        if best is None:
            if cands:
                embed(ctx, sub, r[cands[0]], "%s[%r]" % (path, cands[0]), problems)
                used.add(cands[0])
            else:
                problems.append("%s: member %r dropped from untyped result %r" % (path, k, r))
            continue
        used.add(best)
    for k, val in r.items():
        if k in used:
            continue
        if not _is_default(ctx, val):
            problems.append("%s: member %r = %r invented (not in input, not a default/not-passed placeholder)" % (path, k, val))


def check(schema, value, result, element=None, parsed=True):
    """-> (problems, collision_flag).  `element` (the real element tree) sharpens the oracle where the builder of a
    member is unambiguous: Number => float, model class => instance of that class."""
    ctx = Ctx(schema)
    problems = []
    embed(ctx, value, result, "$", problems, element)
    # independent of what the parsed model says about itself: every name the SCHEMA declares under "properties" (top level,
    # no patterns involved) must be readable under its Python attribute name
    if parsed and isinstance(schema, dict) and isinstance(schema.get("properties"), dict) and isinstance(value, dict) and not schema.get("patternProperties"):
        declared = [k for k in schema["properties"] if k in value]
        names = {}
        for k in schema["properties"]:
            n = _parse_attribute_name(k)
            while n in names.values():
                n += "_"
            names[k] = n
        ambiguous = len(set(value) & set(names.values()) - set(schema["properties"])) > 0
        for k in declared:
            if ambiguous:
                break
            py = names[k]
            try:
                got = getattr(result, py) if isinstance(type(result), ObjectMeta) else result[py]
            except Exception:
                problems.append("$: the schema declares property %r but the result cannot be read under its Python name %r" % (k, py))
                continue
            trial = []
            embed(ctx, value[k], got, "$.%s" % py, trial)
            if trial:
                problems.append("$: declared property %r read under %r gives %r, input was %r" % (k, py, got, value[k]))
    return problems, ctx.collision
