"""Reference evaluator: a direct, boring transcription of Draft-6 validation.

`verdict(schema, inst, opts)` returns a bitmask: V (1) = "valid is an admissible
verdict", I (2) = "invalid is admissible".  Outside the documented-deviation zones
exactly one bit is set.  Both bits are set only where the property statement itself
leaves the verdict open:
  * a required name whose property schema declares a default and which is missing
    ("may be omitted") when opts.waive is on;
  * a string that is *not* a well-formed instance of a registered format (Draft 6
    lets an implementation treat `format` as annotation, and "only registered
    formats are checked" does not promise strictness), when opts.formats is given.
Kleene-style propagation through the connectives keeps the mask sound.
"""
import re
from fractions import Fraction

V, I, B = 1, 2, 3


class Opts:
    def __init__(self, int_is_python_int=False, waive=False, formats=None):
        self.int_is_python_int = int_is_python_int
        self.waive = waive
        self.formats = formats  # None: formats ignored; dict name -> predicate(str)->bool


STRICT = Opts()

_UUID_RE = re.compile(r"^[0-9a-fA-F]{8}-[0-9a-fA-F]{4}-[0-9a-fA-F]{4}-[0-9a-fA-F]{4}-[0-9a-fA-F]{12}\Z")
_TS_RE = re.compile(
    r"^(\d{4})-(\d{2})-(\d{2})[Tt](\d{2}):(\d{2}):(\d{2})(\.\d+)?([Zz]|[+-](\d{2}):(\d{2}))\Z"
)


def is_canonical_uuid(s):
    return bool(_UUID_RE.match(s))


def is_rfc3339(s):
    m = _TS_RE.match(s)
    if not m:
        return False
    y, mo, d, h, mi, sec = (int(m.group(i)) for i in range(1, 7))
    if not (1 <= mo <= 12 and h <= 23 and mi <= 59 and sec <= 60):
        return False
    dim = [31, 29 if (y % 4 == 0 and (y % 100 != 0 or y % 400 == 0)) else 28, 31, 30, 31, 30, 31, 31, 30, 31, 30, 31][mo - 1]
    if not 1 <= d <= dim:
        return False
    if m.group(9) is not None and (int(m.group(9)) > 23 or int(m.group(10)) > 59):
        return False
    return True


DEVIATION_FORMATS = {"uuid": is_canonical_uuid, "date-time": is_rfc3339}
STATHAM = Opts(int_is_python_int=True, waive=True, formats=DEVIATION_FORMATS)


def is_num(x):
    return isinstance(x, (int, float)) and not isinstance(x, bool)


def json_eq(a, b):
    if isinstance(a, bool) or isinstance(b, bool):
        return isinstance(a, bool) and isinstance(b, bool) and a == b
    if is_num(a) and is_num(b):
        return a == b
    if a is None or b is None:
        return a is None and b is None
    if isinstance(a, str) or isinstance(b, str):
        return isinstance(a, str) and isinstance(b, str) and a == b
    if isinstance(a, list) or isinstance(b, list):
        return isinstance(a, list) and isinstance(b, list) and len(a) == len(b) and all(json_eq(x, y) for x, y in zip(a, b))
    if isinstance(a, dict) and isinstance(b, dict):
        return a.keys() == b.keys() and all(json_eq(a[k], b[k]) for k in a)
    return False


def has_type(inst, t, opts):
    if t == "null":
        return inst is None
    if t == "boolean":
        return isinstance(inst, bool)
    if t == "integer":
        if isinstance(inst, bool):
            return False
        if isinstance(inst, int):
            return True
        if isinstance(inst, float) and not opts.int_is_python_int:
            return inst.is_integer()
        return False
    if t == "number":
        return is_num(inst)
    if t == "string":
        return isinstance(inst, str)
    if t == "array":
        return isinstance(inst, list)
    if t == "object":
        return isinstance(inst, dict)
    raise ValueError("unknown type %r" % (t,))


def _and(masks):
    """Conjunction of Kleene masks."""
    can_valid, can_invalid = True, False
    for m in masks:
        if not m & V:
            can_valid = False
        if m & I:
            can_invalid = True
    return (V if can_valid else 0) | (I if can_invalid else 0)


def _or(masks):
    can_valid, can_invalid = False, True
    for m in masks:
        if m & V:
            can_valid = True
        if not m & I:
            can_invalid = False
    return (V if can_valid else 0) | (I if can_invalid else 0)


def _not(m):
    return (V if m & I else 0) | (I if m & V else 0)


def _bool(b):
    return V if b else I


def resolve(root, ref):
    if not ref.startswith("#"):
        raise KeyError("non-local ref %r" % ref)
    node = root
    ptr = ref[1:]
    if ptr in ("", "/"):
        return node
    for part in ptr.lstrip("/").split("/"):
        part = part.replace("~1", "/").replace("~0", "~")
        if isinstance(node, list):
            node = node[int(part)]
        else:
            node = node[part]
    return node


def verdict(schema, inst, opts=STRICT, root=None, _depth=0):
    if root is None:
        root = schema
    if schema is True:
        return V
    if schema is False:
        return I
    if _depth > 60:
        raise RecursionError("reference evaluator: reference cycle")
    if "$ref" in schema:
        return verdict(resolve(root, schema["$ref"]), inst, opts, root, _depth + 1)
    ms = []
    rec = lambda s, v: verdict(s, v, opts, root, _depth + 1)

    if "type" in schema:
        t = schema["type"]
        ts = t if isinstance(t, list) else [t]
        ms.append(_bool(any(has_type(inst, x, opts) for x in ts)))
    if "const" in schema:
        ms.append(_bool(json_eq(inst, schema["const"])))
    if "enum" in schema:
        ms.append(_bool(any(json_eq(inst, e) for e in schema["enum"])))

    if is_num(inst):
        if "minimum" in schema:
            ms.append(_bool(inst >= schema["minimum"]))
        if "maximum" in schema:
            ms.append(_bool(inst <= schema["maximum"]))
        if "exclusiveMinimum" in schema:
            ms.append(_bool(inst > schema["exclusiveMinimum"]))
        if "exclusiveMaximum" in schema:
            ms.append(_bool(inst < schema["exclusiveMaximum"]))
        if "multipleOf" in schema:
            ms.append(_bool((Fraction(inst) / Fraction(schema["multipleOf"])).denominator == 1))

    if isinstance(inst, str):
        if "minLength" in schema:
            ms.append(_bool(len(inst) >= schema["minLength"]))
        if "maxLength" in schema:
            ms.append(_bool(len(inst) <= schema["maxLength"]))
        if "pattern" in schema:
            ms.append(_bool(re.search(schema["pattern"], inst) is not None))
        if "format" in schema and opts.formats is not None:
            pred = opts.formats.get(schema["format"])
            if pred is not None:
                ms.append(V if pred(inst) else B)

    if isinstance(inst, list):
        items = schema.get("items", True)
        if isinstance(items, list):
            for idx, v in enumerate(inst):
                if idx < len(items):
                    ms.append(rec(items[idx], v))
                elif "additionalItems" in schema:
                    ms.append(rec(schema["additionalItems"], v))
        else:
            for v in inst:
                ms.append(rec(items, v))
        if "minItems" in schema:
            ms.append(_bool(len(inst) >= schema["minItems"]))
        if "maxItems" in schema:
            ms.append(_bool(len(inst) <= schema["maxItems"]))
        if schema.get("uniqueItems"):
            uniq = all(not json_eq(inst[i], inst[j]) for i in range(len(inst)) for j in range(i + 1, len(inst)))
            ms.append(_bool(uniq))
        if "contains" in schema:
            ms.append(_or([rec(schema["contains"], v) for v in inst]))

    if isinstance(inst, dict):
        props = schema.get("properties", {})
        pats = schema.get("patternProperties", {})
        for k, v in inst.items():
            matched = False
            if k in props:
                matched = True
                ms.append(rec(props[k], v))
            for p, s in pats.items():
                if re.search(p, k):
                    matched = True
                    ms.append(rec(s, v))
            if not matched and "additionalProperties" in schema:
                ms.append(rec(schema["additionalProperties"], v))
        for name in schema.get("required", []):
            if name in inst:
                continue
            p = props.get(name)
            if opts.waive and isinstance(p, dict) and "default" in p:
                ms.append(B)
            else:
                ms.append(I)
        if "minProperties" in schema:
            ms.append(_bool(len(inst) >= schema["minProperties"]))
        if "maxProperties" in schema:
            ms.append(_bool(len(inst) <= schema["maxProperties"]))
        if "propertyNames" in schema:
            for k in inst:
                ms.append(rec(schema["propertyNames"], k))
        for k, dep in schema.get("dependencies", {}).items():
            if k not in inst:
                continue
            if isinstance(dep, list):
                ms.append(_bool(all(d in inst for d in dep)))
            else:
                ms.append(rec(dep, inst))

    if "allOf" in schema:
        ms.append(_and([rec(s, inst) for s in schema["allOf"]]))
    if "anyOf" in schema:
        ms.append(_or([rec(s, inst) for s in schema["anyOf"]]))
    if "oneOf" in schema:
        sub = [rec(s, inst) for s in schema["oneOf"]]
        definite = sum(1 for m in sub if m == V)
        amb = sum(1 for m in sub if m == B)
        can_valid = definite == 1 or (definite == 0 and amb >= 1)
        can_invalid = not (definite == 1 and amb == 0)
        ms.append((V if can_valid else 0) | (I if can_invalid else 0))
    if "not" in schema:
        ms.append(_not(rec(schema["not"], inst)))
    return _and(ms)


def needs_deviation_pass(schema_text):
    """Cheap syntactic test: can STATHAM opts differ from STRICT on this schema?"""
    return '"integer"' in schema_text or '"format"' in schema_text or ('"default"' in schema_text and '"required"' in schema_text)
