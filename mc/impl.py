"""Thin, classifying wrappers around the real statham package (imported from /repo)."""
import copy
import sys
import warnings

from mc import runner  # noqa: F401  (sets sys.path so that /repo comes first)

from statham.schema.constants import NotPassed
from statham.schema.elements import Element, Object
from statham.schema.elements.meta import ObjectMeta
from statham.schema.exceptions import SchemaParseError, ValidationError
from statham.schema.parser import parse_element
from statham.schema.property import _Property

ACCEPT, REJECT, TYPEERROR, OTHER, TIMEOUT = "ACCEPT", "REJECT", "TYPEERROR", "OTHER", "TIMEOUT"
ELEMENT, PARSE_ERROR = "ELEMENT", "PARSE_ERROR"

warnings.simplefilter("ignore", RuntimeWarning)


class Budget(Exception):
    pass


def with_budget(fn, limit, lines=False):
    """Run fn() under a deterministic event budget; raises Budget when exceeded.
    Counts function-call events (cheap); with lines=True also every line event."""
    count = [0]

    def tracer(frame, event, arg):
        count[0] += 1
        if count[0] > limit:
            raise Budget()
        return tracer if lines else None

    old = sys.gettrace()
    sys.settrace(tracer)
    try:
        return fn()
    finally:
        sys.settrace(old)


def do_parse(schema, budget=None):
    """-> (kind, element_or_exception)"""
    s = copy.deepcopy(schema)
    try:
        with warnings.catch_warnings():
            warnings.simplefilter("ignore")
            if budget:
                el = with_budget(lambda: parse_element(s), budget)
            else:
                el = parse_element(s)
        return ELEMENT, el
    except SchemaParseError as exc:
        return PARSE_ERROR, exc
    except Budget as exc:
        return TIMEOUT, exc
    except Exception as exc:  # noqa
        return OTHER, exc


def do_call(element, value, budget=None, copy_value=True):
    """-> (kind, result_or_exception).  The value is deep-copied unless told otherwise."""
    v = copy.deepcopy(value) if copy_value else value
    try:
        with warnings.catch_warnings():
            warnings.simplefilter("ignore")
            if budget:
                res = with_budget(lambda: element(v), budget)
            else:
                res = element(v)
        return ACCEPT, res
    except ValidationError as exc:
        return REJECT, exc
    except TypeError as exc:
        return TYPEERROR, exc
    except Budget as exc:
        return TIMEOUT, exc
    except RecursionError as exc:
        return OTHER, exc
    except Exception as exc:  # noqa
        return OTHER, exc


def where(exc):
    """Innermost frame inside the statham package that the exception passed through: 'file.py:function'."""
    tb = getattr(exc, "__traceback__", None)
    loc = "?"
    while tb is not None:
        fn = tb.tb_frame.f_code.co_filename
        if "/statham/" in fn:
            loc = "%s:%s" % (fn.rsplit("/statham/", 1)[1], tb.tb_frame.f_code.co_name)
        tb = tb.tb_next
    return loc


# --------------------------------------------------------------------------- canonical forms
def canon_result(r, depth=0):
    """Structural, type-strict canonical form of a validation result."""
    if depth > 40:
        return "<deep>"
    if isinstance(r, NotPassed):
        return ("NotPassed",)
    if r is None or isinstance(r, (bool, str)):
        return (type(r).__name__, r)
    if isinstance(r, int) and r.bit_length() > 4000:
        return ("int", hex(r))  # repr() of such an integer is refused by the interpreter
    if isinstance(r, (int, float)):
        return (type(r).__name__, repr(r))
    if isinstance(r, list):
        return ("list", tuple(canon_result(x, depth + 1) for x in r))
    if isinstance(type(r), ObjectMeta):
        d = getattr(r, "_dict", None)
        return ("obj", type(r).__name__, tuple(sorted((k, canon_result(v, depth + 1)) for k, v in (d or {}).items())))
    if isinstance(r, dict):
        return (type(r).__name__, tuple(sorted((str(k), canon_result(v, depth + 1)) for k, v in r.items())))
    return ("?", type(r).__name__, repr(r))


def strict_eq(a, b):
    """Type-strict deep equality on plain JSON-ish python data."""
    if type(a) is not type(b):
        return False
    if isinstance(a, list):
        return len(a) == len(b) and all(strict_eq(x, y) for x, y in zip(a, b))
    if isinstance(a, dict):
        return list(a.keys()) == list(b.keys()) and all(strict_eq(a[k], b[k]) for k in a)
    if isinstance(a, float):
        return repr(a) == repr(b)
    return a == b


def snapshot(x, seen=None, depth=0):
    """Full canonical snapshot of an element tree: every attribute (public, private,
    unknown), recursively; classes by name + vars; identity-sharing is recorded so a
    hidden cache or an aliased list makes snapshots *more* distinct, never less."""
    if seen is None:
        seen = {}
    if depth > 60:
        return "<deep>"
    if isinstance(x, NotPassed):
        return "NotPassed"
    if x is None or isinstance(x, (bool, str)):
        return (type(x).__name__, x)
    if isinstance(x, int) and x.bit_length() > 4000:
        return ("int", hex(x))  # repr() of such an integer is refused by the interpreter
    if isinstance(x, (int, float)):
        return (type(x).__name__, repr(x))
    oid = id(x)
    if isinstance(x, (list, tuple)):
        if oid in seen:
            return ("<alias>", seen[oid])
        seen[oid] = len(seen)
        return (type(x).__name__, tuple(snapshot(i, seen, depth + 1) for i in x))
    if isinstance(x, dict):
        if oid in seen:
            return ("<alias>", seen[oid])
        seen[oid] = len(seen)
        extra = ()
        if type(x) is not dict:
            extra = tuple(sorted((k, snapshot(v, seen, depth + 1)) for k, v in vars(x).items() if k not in ("_parent", "parent"))) if hasattr(x, "__dict__") else ()
        return (type(x).__name__, tuple((snapshot(k, seen, depth + 1), snapshot(v, seen, depth + 1)) for k, v in x.items()), extra)
    if isinstance(x, ObjectMeta):
        if oid in seen:
            return ("<class-ref>", x.__name__, seen[oid])
        seen[oid] = len(seen)
        items = []
        for k, v in sorted(vars(x).items()):
            if k in ("__dict__", "__weakref__", "__module__", "__qualname__", "__doc__", "__annotations__", "__orig_bases__", "__parameters__"):
                continue
            if callable(v) and not isinstance(v, (Element, _Property)):
                items.append((k, "<callable>"))
                continue
            items.append((k, snapshot(v, seen, depth + 1)))
        bases = tuple(b.__name__ for b in x.__bases__)
        return ("class", x.__name__, bases, tuple(items))
    if isinstance(x, Element):
        if oid in seen:
            return ("<elem-ref>", seen[oid])
        seen[oid] = len(seen)
        return ("elem", type(x).__name__, tuple((k, snapshot(v, seen, depth + 1)) for k, v in sorted(vars(x).items())))
    if isinstance(x, _Property):
        if oid in seen:
            return ("<prop-ref>", seen[oid])
        seen[oid] = len(seen)
        items = []
        for k, v in sorted(vars(x).items()):
            if k == "parent":
                items.append((k, ("<parent>", type(v).__name__, getattr(v, "__name__", None))))
            else:
                items.append((k, snapshot(v, seen, depth + 1)))
        return ("prop", tuple(items))
    if isinstance(type(x), ObjectMeta):
        return ("instance", type(x).__name__, snapshot(getattr(x, "_dict", None), seen, depth + 1))
    if isinstance(x, (set, frozenset)):
        return ("set", tuple(sorted(repr(i) for i in x)))
    return ("?", type(x).__name__, repr(x))
