"""E2: explicit-state BFS over operation histories on live objects.

A state is the event history that reaches it; it is rebuilt on a *fresh* object for
every successor (live elements do not copy faithfully).  States are de-duplicated by
a caller-supplied canonical key (full snapshot), so merged states have literally the
same Python state and therefore the same futures.
"""
import collections


class Op:
    def __init__(self, name, apply, enabled=None, model=None):
        self.name = name
        self.apply = apply  # apply(live) -> observation (or None)
        self.enabled = enabled or (lambda live: True)
        self.model = model  # model(ref_state) -> None (mutates the reference model)


def bfs(build, ops, key, check, depth, prefix=(), stats=None, max_states=None):
    """build() -> (live, ref)   fresh implementation object + fresh reference model
    ops: list[Op]; key(live, ref) -> hashable; check(live, ref, hist) -> None (reports itself)
    prefix: history (tuple of op indices) to start from (used for sharding by first op).
    Returns (states, transitions, max_depth_completed, capped)."""

    def replay(hist):
        live, ref = build()
        for i in hist:
            op = ops[i]
            if not op.enabled(live):
                return None, None
            op.apply(live)
            if op.model:
                op.model(ref)
        return live, ref

    seen = set()
    frontier = collections.deque()
    live, ref = replay(prefix)
    if live is None:
        return 0, 0, 0, False
    k0 = key(live, ref)  # always before check(): the oracle's own probe calls must not leak into state identity
    seen.add(k0)
    check(live, ref, prefix)
    frontier.append(tuple(prefix))
    transitions = 0
    capped = False
    maxd = len(prefix)
    while frontier:
        hist = frontier.popleft()
        if len(hist) >= depth:
            continue
        base_live, _ = replay(hist)
        for i, op in enumerate(ops):
            if not op.enabled(base_live):
                continue
            nh = hist + (i,)
            live, ref = replay(nh)
            if live is None:
                continue
            transitions += 1
            k = key(live, ref)
            check(live, ref, nh)
            maxd = max(maxd, len(nh))
            if k not in seen:
                if max_states and len(seen) >= max_states:
                    capped = True
                    continue
                seen.add(k)
                frontier.append(nh)
    return len(seen), transitions, maxd, capped
