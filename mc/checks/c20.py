"""C20 — unsupported schema features are refused, never silently mis-modelled.

(a) E1: every <=1-atom lattice schema x every schema position (root, 17 wrapper positions, definitions) x every unsupported
    keyword with truthy and falsy values, through parse_element, parse and the generator; oracle: the not-implemented error,
    and the same schema without the keyword still parses.
(b) E1 over reference graphs: all digraphs on n <= 3 definitions (+ root) with each edge realised as a $ref in one of 5
    position kinds, rings of length 1..8 and cross-file rings, through the real generator; oracle: a cycle reachable from the
    root or from any definition => the not-implemented error; acyclic => a module that executes; always within a budget.
"""
import copy
import itertools
import json
import sys

from mc import docs, impl, runner
from mc.checks.c01 import metaschema_valid
from mc.gen import atoms as A

from statham.schema.exceptions import FeatureNotImplementedError, SchemaParseError
from statham.schema.parser import parse, parse_element

PROP = "C20"
LEVEL = "model_checking"
RULE = (
    "(a) exhaustive product: every lattice state of depth <=1 (and the leaves) x 20 positions (root, items, tuple items, "
    "additionalItems with tuple / single / no items, contains, properties, patternProperties, additionalProperties, propertyNames, "
    "dependencies, each composition keyword's branch, not, definitions, nested twice) x 15 (unsupported keyword, value) atoms incl. "
    "falsy values; entry points parse_element, parse and main; (b) all digraphs on <=3 definitions x 8 root reference sets x 5 "
    "reference position kinds (quick: n=3 under 2 kinds), rings of length 1..8, cross-file rings; each document through the real "
    "generator under a call-event budget; non-trivial = documents with at least one reference edge or unsupported keyword"
)
ASSUMPTIONS = [
    "an unsupported keyword name inside a literal (const/enum/default) or used as a property NAME is not required to be refused (counted only)",
    "remote (http) references are outside the family",
]

UNSUPPORTED = [
    ("if", {"type": "string"}), ("if", {}), ("if", False), ("if", True), ("then", {"minimum": 1}), ("then", {}), ("else", {"type": "null"}), ("else", False),
    ("$defs", {"x": {"type": "integer"}}), ("$defs", {}), ("unevaluatedItems", False), ("unevaluatedItems", True), ("unevaluatedItems", {"type": "integer"}),
    ("unevaluatedProperties", False), ("unevaluatedProperties", {}),
]
BUDGET = 3_000_000

POSITIONS = ["root"] + A.WRAPPERS + ["additionalItems/single-items", "additionalItems/no-items", "definitions", "nested-twice", "properties-of-typed-object",
             "items/under-type-string", "properties/under-type-array", "object-keywords/under-type-list-without-object", "array-keywords/under-type-integer-list",
             # positions a neighbour makes redundant for validation (still positions statham interprets as schemas)
             "anyOf/after-true", "anyOf/before-empty", "oneOf/next-to-false", "allOf/after-false", "properties/maxProperties-0", "items/maxItems-0+const", "not/not"]


DIALECTS = ["http://json-schema.org/draft-06/schema#", "http://json-schema.org/draft-07/schema#", "http://json-schema.org/draft-04/schema#", "https://json-schema.org/draft/2019-09/schema", "http://json-schema.org/draft-03/schema#", "http://json-schema.org/schema#"]


def place(position, s):
    s = copy.deepcopy(s)
    if position == "root":
        return s
    if position == "additionalItems/single-items":
        return {"items": {"type": "integer"}, "additionalItems": s}
    if position == "additionalItems/no-items":
        return {"additionalItems": s}
    if position == "definitions":
        return {"type": "object", "title": "Root", "definitions": {"d": s}}
    if position == "nested-twice":
        return {"properties": {"a": {"items": [{"anyOf": [{"not": s}]}]}}}
    if position == "items/under-type-string":
        return {"type": "string", "items": s, "contains": s}
    if position == "properties/under-type-array":
        return {"type": "array", "properties": {"a": s}, "dependencies": {"k": s}}
    if position == "object-keywords/under-type-list-without-object":
        return {"type": ["string", "null"], "additionalProperties": s, "patternProperties": {"^a": s}, "propertyNames": s}
    if position == "array-keywords/under-type-integer-list":
        return {"type": ["integer"], "items": [s], "additionalItems": s}
    if position == "anyOf/after-true":
        return {"anyOf": [True, s]}
    if position == "anyOf/before-empty":
        return {"properties": {"p": {"anyOf": [s, {}]}}}
    if position == "oneOf/next-to-false":
        return {"oneOf": [False, s, False]}
    if position == "allOf/after-false":
        return {"allOf": [False, s]}
    if position == "properties/maxProperties-0":
        return {"maxProperties": 0, "properties": {"a": s}, "additionalProperties": False, "patternProperties": {"^b": s}}
    if position == "items/maxItems-0+const":
        return {"maxItems": 0, "items": s, "const": 1, "contains": s}
    if position == "not/not":
        return {"not": {"not": s}}
    if position == "properties-of-typed-object":
        return {"type": "object", "title": "Root", "properties": {"p": s}, "patternProperties": {"^q": s}, "additionalProperties": s}
    return A.wrap(position, s)


def classify(exc):
    if isinstance(exc, FeatureNotImplementedError):
        return "REFUSED"
    if isinstance(exc, SchemaParseError):
        return "PARSE_ERROR"
    return "OTHER:" + type(exc).__name__


def attempt(entry, doc):
    d = copy.deepcopy(doc)
    try:
        if entry == "parse_element":
            impl.with_budget(lambda: parse_element(d), BUDGET)
        elif entry == "parse":
            impl.with_budget(lambda: parse(d), BUDGET)
        else:
            impl.with_budget(lambda: docs.generate(d), BUDGET)
        return "RETURNED"
    except impl.Budget:
        return "TIMEOUT"
    except Exception as exc:
        return classify(exc)


def keyword_cases(st, lo, hi):
    bases = [("leaf%d" % n, l) for n, l in enumerate(A.LEAVES) if isinstance(l, dict)] + [("s%d" % i, A.schema_of((i,))) for i in range(A.N)]
    for bname, base in bases[lo:hi]:
        for position in POSITIONS:
            clean = place(position, base)
            clean_outcomes = {}
            for kw, val in UNSUPPORTED:
                if kw in base:
                    continue
                dirty_inner = {**copy.deepcopy(base), kw: copy.deepcopy(val)}
                doc = place(position, dirty_inner)
                entries = ["parse"] + (["parse_element"] if position != "definitions" else []) + (["main"] if (position in ("root", "definitions", "properties.a", "items") and isinstance(doc, dict)) else [])
                if isinstance(doc, dict) and position in ("root", "properties.a", "definitions", "anyOf0", "items") and "$schema" not in doc:
                    # the same document declaring its dialect: the keyword is unsupported whatever the document says it is
                    dialect = DIALECTS[(len(kw) + len(position) + len(bname)) % len(DIALECTS)]
                    for entry in ("parse", "main") if position != "anyOf0" else ("parse",):
                        got2 = attempt(entry, {"$schema": dialect, **copy.deepcopy(doc)})
                        st.add("evaluations")
                        st.outcome("%s+$schema/%s" % (entry, got2))
                        if got2 != "REFUSED":
                            st.violation("unsupported-keyword-not-refused:%s:declared-dialect" % got2, "%s at %s in a document declaring $schema %s via %s: %s instead of the not-implemented error" % (json.dumps({kw: val}), position, dialect, entry, got2), {"base": base, "position": position, "keyword": kw, "value": val, "entry": entry, "dialect": dialect})
                st.add("states")
                st.add("transitions")
                st.add("nontrivial")
                for entry in entries:
                    got = attempt(entry, doc)
                    st.add("evaluations")
                    st.add("traces")
                    st.outcome("%s/%s" % (entry, got))
                    case = {"base": base, "position": position, "keyword": kw, "value": val, "entry": entry, "document": doc}
                    if got != "REFUSED":
                        st.violation("unsupported-keyword-not-refused:%s:%s" % (got, "falsy-value" if not val else "truthy-value"), "%s at %s in %s via %s: %s instead of the not-implemented error" % (json.dumps({kw: val}), position, json.dumps(doc)[:200], entry, got), case, rank=len(json.dumps(doc)))
                        continue
                    if entry not in clean_outcomes:
                        clean_outcomes[entry] = attempt(entry, clean)
                    if clean_outcomes[entry] not in ("RETURNED",):
                        st.violation("clean-schema-does-not-parse:%s" % clean_outcomes[entry], "the schema %s without the unsupported keyword gives %s via %s" % (json.dumps(clean)[:200], clean_outcomes[entry], entry), {**case, "clean": clean}, rank=len(json.dumps(doc)))
            # keyword names inside literals / as property names: counted only
            for kw, val in UNSUPPORTED[:1]:
                lit = place(position, {**copy.deepcopy(base), "const": {kw: val}} if "const" not in base else base)
                st.notes["literal/" + attempt("parse", lit)] += 1
    docs.clear()


# --------------------------------------------------------------------------- reference graphs
REF_KINDS = ["properties", "items", "additionalProperties", "anyOf", "dependencies"]


def ref_node(kind, refs, title):
    """A definition that refers to the given targets through one position kind."""
    node = {"type": "object", "title": title, "properties": {"own": {"type": "integer"}}}
    if not refs:
        return node
    rs = [{"$ref": r} for r in refs]
    if kind == "properties":
        for n, r in enumerate(rs):
            node["properties"]["r%d" % n] = r
    elif kind == "items":
        node["properties"]["arr"] = {"type": "array", "items": rs[0] if len(rs) == 1 else rs}
    elif kind == "additionalProperties":
        node["additionalProperties"] = rs[0] if len(rs) == 1 else {"anyOf": rs}
    elif kind == "anyOf":
        node["properties"]["u"] = {"anyOf": rs + [{"type": "null"}]}
    elif kind == "dependencies":
        node["dependencies"] = {"k%d" % n: r for n, r in enumerate(rs)}
    return node


def graph_doc(n, edges, root_refs, kind):
    defs = {}
    for i in range(n):
        targets = ["#/definitions/d%d" % j for (a, j) in edges if a == i]
        defs["d%d" % i] = ref_node(kind, targets, "D%d" % i)
    root = ref_node("properties", ["#/definitions/d%d" % i for i in root_refs], "Root")
    root["definitions"] = defs
    return root


def cyclic(n, edges):
    adj = {i: [j for (a, j) in edges if a == i] for i in range(n)}
    colour = {}

    def dfs(u):
        colour[u] = 1
        for v in adj[u]:
            if colour.get(v) == 1 or (v not in colour and dfs(v)):
                return True
        colour[u] = 2
        return False

    return any(dfs(u) for u in range(n) if u not in colour)


def judge_graph(st, label, doc, extra, expect_cycle, rank, budget=None):
    st.add("states")
    st.add("transitions")
    st.add("evaluations")
    st.add("nontrivial")
    case = {"graph": label, "document": doc, "extra": extra}
    try:
        text = impl.with_budget(lambda: docs.generate(copy.deepcopy(doc), copy.deepcopy(extra)), budget or BUDGET)
        got = "RETURNED"
    except impl.Budget:
        got, text = "TIMEOUT", None
    except RecursionError as exc:
        got, text = "OTHER:RecursionError", None
    except Exception as exc:
        got, text = classify(exc), None
    st.add("traces")
    st.outcome("%s/%s" % ("cyclic" if expect_cycle else "acyclic", got))
    if got == "TIMEOUT":
        st.violation("generation-did-not-terminate", "%s: budget exceeded" % label, case, rank)
    elif expect_cycle and got != "REFUSED":
        st.violation("recursive-references-not-refused:%s" % got, "%s: references are recursive but generation gave %s" % (label, got), case, rank)
    elif not expect_cycle:
        if got != "RETURNED":
            st.violation("acyclic-document-refused:%s" % got, "%s: no reference cycle, yet generation gave %s" % (label, got), case, rank)
        else:
            try:
                exec(compile(text, "<generated>", "exec"), {"__builtins__": __builtins__})
            except Exception as exc:
                st.violation("acyclic-module-broken:%s" % type(exc).__name__, "%s: %r" % (label, exc), {**case, "module": text[:1500]}, rank)


def graph_cases(st, n, lo, hi, kinds):
    pairs = [(i, j) for i in range(n) for j in range(n)]
    for mask in range(lo, hi):
        edges = [p for k, p in enumerate(pairs) if mask >> k & 1]
        cyc = cyclic(n, edges)
        for kind in kinds:
            for rmask in range(1 << n):
                root_refs = [i for i in range(n) if rmask >> i & 1]
                doc = graph_doc(n, edges, root_refs, kind)
                # parse() walks the root and EVERY definition, so any cycle among the definitions must be refused
                judge_graph(st, "n=%d edges=%s kind=%s root->%s" % (n, edges, kind, root_refs), doc, None, cyc, rank=len(edges))
    docs.clear()


def ring_cases(st):
    for length in range(1, 9):
        for kind in REF_KINDS:
            defs = {"d%d" % i: ref_node(kind, ["#/definitions/d%d" % ((i + 1) % length)], "D%d" % i) for i in range(length)}
            doc = {**ref_node("properties", ["#/definitions/d0"], "Root"), "definitions": defs}
            judge_graph(st, "ring length %d kind %s" % (length, kind), doc, None, True, rank=length)
            # the same ring cut open is acyclic
            defs2 = copy.deepcopy(defs)
            defs2["d%d" % (length - 1)] = ref_node(kind, [], "D%d" % (length - 1))
            doc2 = {**ref_node("properties", ["#/definitions/d0"], "Root"), "definitions": defs2}
            judge_graph(st, "chain length %d kind %s" % (length, kind), doc2, None, False, rank=length)
    # long rings: the cycle is only closed after hundreds of hops (deeper than the reference resolver's own recursion)
    for length in ((40, 260, 700) if _TIER[0] == "quick" else (40, 120, 260, 400, 700)):
        for kind in (("properties",) if _TIER[0] == "quick" and length != 260 else ("properties", "items")):
            defs = {"d%d" % i: ref_node(kind, ["#/definitions/d%d" % ((i + 1) % length)], "D%d" % i) for i in range(length)}
            doc = {**ref_node("properties", ["#/definitions/d0"], "Root"), "definitions": defs}
            judge_graph(st, "ring length %d kind %s" % (length, kind), doc, None, True, rank=length, budget=BUDGET * length)
    for length in (40, 100):
        defs = {"d%d" % i: ref_node("properties", ["#/definitions/d%d" % (i + 1)] if i + 1 < length else [], "D%d" % i) for i in range(length)}
        doc = {**ref_node("properties", ["#/definitions/d0"], "Root"), "definitions": defs}
        judge_graph(st, "chain length %d kind properties" % length, doc, None, False, rank=length, budget=BUDGET * length)
    # rings built by hand (already resolved: the objects refer to each other), handed to parse() and parse_element()
    for length in ((1, 2, 300) if _TIER[0] == "quick" else (1, 2, 50, 300, 1000)):
        for kind in ("properties", "items", "anyOf", "additionalProperties"):
            nodes = [{"type": "object", "title": "N%d" % i, "properties": {"own": {"type": "integer"}}} for i in range(length)]
            for i, node in enumerate(nodes):
                nxt = nodes[(i + 1) % length]
                if kind == "properties":
                    node["properties"]["next"] = nxt
                elif kind == "items":
                    node["properties"]["next"] = {"type": "array", "items": nxt}
                elif kind == "anyOf":
                    node["properties"]["next"] = {"anyOf": [nxt, {"type": "null"}]}
                else:
                    node["additionalProperties"] = nxt
            for entry, fn in (("parse", parse), ("parse_element", parse_element)):
                st.add("states")
                st.add("transitions")
                st.add("evaluations")
                st.add("nontrivial")
                try:
                    impl.with_budget(lambda: fn(nodes[0]), BUDGET * 4)
                    got = "RETURNED"
                except impl.Budget:
                    got = "TIMEOUT"
                except RecursionError:
                    got = "OTHER:RecursionError"
                except Exception as exc:
                    got = classify(exc)
                st.outcome("hand-built-ring/%s" % got)
                if got != "REFUSED":
                    st.violation("recursive-references-not-refused:%s:hand-built" % got, "a ring of %d object schemas linked through %s, given to %s: %s" % (length, kind, entry, got), {"ring": length, "kind": kind, "entry": entry})
    # cycles that run through a literal keyword (json_ref_dict resolves $ref inside default / const / enum as well)
    judge_graph(st, "literal cycle: default -> root", {"type": "object", "title": "Root", "properties": {"p": {"type": "object", "title": "P", "default": {"$ref": "#"}}}}, None, True, 1)
    judge_graph(st, "literal cycle: const <-> enum between definitions", {"type": "object", "title": "Root", "properties": {"a": {"$ref": "#/definitions/a"}}, "definitions": {"a": {"const": {"x": {"$ref": "#/definitions/b"}}}, "b": {"enum": [{"$ref": "#/definitions/a"}, 1]}}}, None, True, 2)
    judge_graph(st, "literal cycle: default -> definition -> property -> same definition's default", {"type": "object", "title": "Root", "definitions": {"d": {"type": "object", "title": "D", "properties": {"q": {"default": [{"$ref": "#/definitions/d"}]}}}}}, None, True, 2)
    judge_graph(st, "literal without cycle: default -> other definition", {"type": "object", "title": "Root", "properties": {"p": {"default": {"$ref": "#/definitions/v"}}}, "definitions": {"v": {"const": 1}}}, None, False, 1)
    # self reference of the root, root <-> definition, cross-file rings
    judge_graph(st, "root self-reference", {"type": "object", "title": "Root", "properties": {"me": {"$ref": "#"}}}, None, True, 1)
    judge_graph(st, "root <-> definition", {"type": "object", "title": "Root", "properties": {"d": {"$ref": "#/definitions/d"}}, "definitions": {"d": {"type": "object", "title": "D", "properties": {"back": {"$ref": "#"}}}}}, None, True, 2)
    for kind in REF_KINDS:
        root = ref_node(kind, ["other.json#/definitions/o"], "Root")
        other = {"definitions": {"o": ref_node(kind, ["root.json#/definitions/home"], "O")}}
        root["definitions"] = {"home": ref_node(kind, ["other.json#/definitions/o"], "Home")}
        judge_graph(st, "cross-file ring kind %s" % kind, root, {"other.json": other}, True, 3)
        root2 = copy.deepcopy(root)
        root2["definitions"]["home"] = ref_node(kind, [], "Home")
        judge_graph(st, "cross-file chain kind %s" % kind, root2, {"other.json": other}, False, 3)
    docs.clear()


def threaded_parse(st):
    """E3 (coarse): thread A parses an ordinary nested schema while thread B parses a recursive document / a schema with an
    unsupported keyword; scheduling points at every entry to parse_element; all schedules with <= 1 preemption."""
    from mc import sched

    ordinary = {"type": "object", "title": "Ord", "properties": {"a": {"type": "array", "items": {"anyOf": [{"type": "integer"}, {"type": "object", "title": "In", "properties": {"x": {}}}]}}, "b": {"not": {"const": 1}}}}
    ring = {"type": "object", "title": "Ring", "properties": {}}
    ring["properties"]["me"] = {"type": "array", "items": ring}
    cases = {
        "ordinary || recursive": (lambda: copy.deepcopy(ordinary), lambda: ring, ["RETURNED", "REFUSED"]),
        "ordinary || unsupported": (lambda: copy.deepcopy(ordinary), lambda: {"properties": {"p": {"if": {}}}}, ["RETURNED", "REFUSED"]),
        "recursive || recursive": (lambda: ring, lambda: ring, ["REFUSED", "REFUSED"]),
    }

    def body(mk):
        def run():
            try:
                parse_element(mk() if mk() is not ring else ring)
                return "RETURNED"
            except Exception as exc:
                return classify(exc)

        return run

    for label, (ma, mb, want) in cases.items():
        def make_bodies():
            return [body(ma), body(mb)], None

        def check(ex, ctx, schedule):
            st.add("states")
            st.add("evaluations")
            st.add("traces")
            st.add("transitions", ex.steps)
            st.add("nontrivial")
            got = [ex.results.get(0), ex.results.get(1)]
            if got != want or ex.errors:
                st.violation("concurrent-parse-differs", "%s: under schedule %s the parses gave %s (errors %s), sequentially %s" % (label, sorted(schedule.items()), got, ex.errors, want), {"case": label, "schedule": sorted(schedule.items()), "got": got, "sequential": want}, rank=len(schedule))

        try:
            for start in (0, 1):
                res = sched.explore(make_bodies, check, 1, ("calls", {"parse_element"}), base={0: start}, max_execs=400)
                st.add("schedules", res["executions"])
                if res["capped"]:
                    st.add("caps_hit_threaded_parse")
        except (sched.ScheduleDivergence, sched.Deadlock) as exc:
            st.violation("HARNESS:%s" % type(exc).__name__, "%s: %s" % (label, exc), {"case": label})
    st.outcome("threaded-parse")


_TIER = ["quick"]


def plan(tier, seed):
    _TIER[0] = tier  # workers are forked after plan() and inherit it
    nb = len([l for l in A.LEAVES if isinstance(l, dict)]) + A.N
    items = [("kw", lo, min(nb, lo + 6)) for lo in range(0, nb, 6)]
    items += [("graph", 1, 0, 2, REF_KINDS), ("graph", 2, 0, 16, REF_KINDS)]
    kinds3 = REF_KINDS if tier == "thorough" else ["properties", "anyOf"]
    items += [("graph", 3, lo, lo + 16, kinds3) for lo in range(0, 512, 16)]
    items += [("rings",), ("threads",)]
    return {"items": items, "meta": {"bases": nb, "positions": POSITIONS, "unsupported_atoms": len(UNSUPPORTED), "ref_kinds_n3": kinds3, "ring_lengths": [1, 8], "budget_call_events": BUDGET, "exhaustive": True}}


def work(item):
    st = runner.Stats()
    if item[0] == "kw":
        keyword_cases(st, item[1], item[2])
        st.sample({"bases": [item[1], item[2]], "positions": POSITIONS[:5], "keywords": [u[0] for u in UNSUPPORTED[:4]]})
    elif item[0] == "graph":
        graph_cases(st, item[1], item[2], item[3], item[4])
        if item[2] == 0:
            st.sample({"reference_graphs_n": item[1], "kinds": item[4]})
    elif item[0] == "threads":
        threaded_parse(st)
        st.sample({"threaded_parse": "2 threads, scheduling points at parse_element entry, <= 1 preemption"})
    else:
        ring_cases(st)
        st.sample({"rings": "length 1..8 x %s + cross-file" % REF_KINDS})
    return st


def replay(case):
    st = runner.Stats()
    if "schedule" in case:
        threaded_parse(st)
        return [v for lst in st.violations.values() for _, v in lst]
    if "graph" in case:
        judge_graph(st, case["graph"], case["document"], case.get("extra"), "ring" in case["graph"] or "self" in case["graph"] or "<->" in case["graph"] or _cyclic_label(case["graph"]), 0)
    else:
        got = attempt(case["entry"], case["document"])
        if got != "REFUSED":
            return [{"key": "unsupported-keyword-not-refused:%s" % got, "what": got, "case": case}]
    return [v for lst in st.violations.values() for _, v in lst]


def _cyclic_label(label):
    try:
        n = int(label.split("n=")[1].split(" ")[0])
        edges = eval(label.split("edges=")[1].split(" kind")[0])
        return cyclic(n, edges)
    except Exception:
        return False


if __name__ == "__main__":
    sys.exit(runner.main(sys.modules[__name__]))
