"""C10 — only validation / schema-parse errors escape; every call terminates.

(a) totality over the ordinary lattice (depth <= 2 + wrappers): exception classes only;
(b) E1 over an *extreme* family (schema atoms x extreme values), each call under a
    deterministic line-event budget and under the natural and the reversed validator order;
(c) parse totality over the lattice plus metaschema-valid corner schemas.
"""
import itertools
import json
import sys

from mc import impl, lattice, runner
from mc.checks.c01 import metaschema_valid
from mc.gen import atoms as A

from statham.schema.elements import Element, String
from statham.schema.parser import parse_element

import warnings

warnings.filterwarnings("ignore", category=FutureWarning)

PROP = "C10"
LEVEL = "model_checking"
RULE = (
    "explicit-state enumeration: (a) every state of the schema lattice to depth 2 and every wrapper of depth<=1 states x value "
    "alphabet, (b) the product of an extreme-schema family (<=2 extreme atoms, typed and untyped, nested once) x an extreme-value "
    "alphabet (huge/tiny/infinite numbers, long digit strings, surrogates, deep nesting, unhashable mixes, dunder member names), "
    "each under a call-event budget and under natural + reversed validator order, (c) parse of every lattice state and corner "
    "schema; oracle: outcome class in {ACCEPT, REJECT(ValidationError), TypeError} resp. {Element, SchemaParseError family}, no "
    "budget overrun; non-trivial = (schema,value) pairs of family (b) plus lattice states whose outcome vector is not constant"
)
ASSUMPTIONS = [
    "patterns with catastrophic backtracking are outside the alphabet (Python's re has no step bound)",
    "nesting depth <= 100 levels; NaN (not expressible in JSON text) is counted but not judged",
    "a function-call-event budget of 100k + 5k per value node stands in for 'terminates'",
]

BUDGET = 100_000
ALLOWED_CALL = (impl.ACCEPT, impl.REJECT, impl.TYPEERROR)


def deep_list(n):
    v = 1
    for _ in range(n):
        v = [v]
    return v


def deep_dict(n):
    v = 1
    for _ in range(n):
        v = {"a": v}
    return v


def extreme_values():
    inf = json.loads("1e999")
    vals = [
        1e308, -1e308, 5e-324, -0.0, 10 ** 400, -(10 ** 400), 10 ** 400 + 1, 2 ** 63, 2 ** 64 + 1, inf, -inf, 1e16 + 2, 0.1, 0.3, 1e-9,
        "9" * 1, "9" * 4, "9" * 5, "9" * 8, "9" * 10, "9" * 19, "9" * 20, "9" * 50, "9" * 400, "9" * 5000, "1" * 30, "0" * 40,
        "2020-01-01T00:00:00" + "9" * 400, "0000-00-00T00:00:00Z", "99999-01-01", "1e400", "-" * 50, "+" * 50, "T" * 30, "a" * 10000,
        "\ud800", "a\udfffb", "\x00", "a\x00b", "\U0001f4a9" * 3, "é", "‮", "\n", " ", " " * 100,
        "{" + "0" * 31 + "}", "urn:uuid:" + "0" * 32, "0" * 32, "g" * 32, "0" * 33,
        deep_list(10), deep_list(50), deep_list(100), deep_dict(10), deep_dict(50), deep_dict(100),
        [1, [1], {"a": 1}, "a", None, True, 1.0], [[], []], [{}, {}], [{"a": [1]}, {"a": [True]}], list(range(1000)), [[1, 2], [1, 2]],
        [1e308, 10 ** 400], [inf, inf], ["\ud800", "\ud800"], [None] * 3, [[[]]] * 2,
        {"": 1}, {"__dict__": 1}, {"__class__": 1}, {"__weakref__": 1}, {"__slots__": 1}, {"__init__": 1}, {"__module__": 1},
        {"\ud800": 1}, {"a" * 1000: 1}, {"_dict": 1, "mro": 2}, {"properties": 1, "default": 2}, {"self": 1, "value": 2, "cls": 3},
        {"a": 10 ** 400}, {"a": "9" * 400}, {"a": deep_list(50)}, {str(i): i for i in range(300)},
        2 ** 1024 - 1, -(2 ** 1024 - 1), 2 ** 1024 - 2 ** 970, 2 ** 1024 - 2 ** 971, 2 ** 1024, 2 ** 1023 + 2 ** 970, [2 ** 1024 - 1], {"a": -(2 ** 1024 - 1)},
        10 ** 4299, 10 ** 4300, -(10 ** 4400), 10 ** 5000 + 1, [10 ** 4400], [1, 10 ** 4400, 10 ** 4400], {"a": 10 ** 5000}, {"a": [10 ** 5000]}, {"1" * 5000: 1}, "9" * 5000,
        {"a": 1, "__dict__": {"x": 1}}, {"required": 1, "additionalProperties": 2, "validators": 3, "type_validator": 4},
    ]
    return vals


NAN = float("nan")

WEIRD_NAMES = [
    "__dict__", "__weakref__", "__slots__", "__module__", "__class__", "__init__", "__doc__", "__qualname__", "__annotations__",
    "_dict", "mro", "properties", "default", "required", "additionalProperties", "validators", "inline", "description", "",
    "self", "value", "cls", "None", "True", "import", "a b", "\ud800", "\x00", "1", "a" * 300, "__properties__", "construct",
]


def extreme_atoms():
    out = []
    for m in (0.1, 0.5, 5e-324, 1e308, 3, 10 ** 400, 1e-9, 2 ** 63):
        out.append({"multipleOf": m})
    for kw in ("minimum", "maximum", "exclusiveMinimum", "exclusiveMaximum"):
        for n in (1e308, -1e308, 10 ** 400, -(10 ** 400), 5e-324):
            out.append({kw: n})
    for kw in ("minLength", "maxLength", "minItems", "maxItems", "minProperties", "maxProperties"):
        for n in (0, 2 ** 63, 10 ** 30):
            out.append({kw: n})
    for f in ("date-time", "uuid", "UUID", "Date-Time", "DATE-TIME", "uuid ", ""):
        out.append({"format": f})
    for p in ("^a*$", "\\d+", "[\\x00-\\x1f]", "^(?:a|b)+$", "\\s", ".", "$^", "\\W", "^[A-Za-z_$][A-Za-z0-9_$]*$", "[$^]", "[\\\\$]", "a$|b", "(?i)^A", "(?P<n>a)(?P=n)", "(?=a)a", "a{1,2}$", "\\$", "\\\\$", "[]$]", "^\\^", "\\Z", "\\bword\\b", "[[:alpha:]]", "(?:$)"):
        out.append({"pattern": p})
    out.append({"uniqueItems": True})
    for c in (deep_list(50), deep_dict(50), 1e308, 10 ** 400, "\ud800", [1, [1], {"a": 1}], {"__dict__": 1}):
        out.append({"const": c})
        out.append({"enum": [c, 1]})
    out.append({"contains": {"const": 10 ** 400}})
    out.append({"items": {"multipleOf": 0.5}})
    out.append({"items": [{"format": "date-time"}], "additionalItems": {"multipleOf": 1e308}})
    out.append({"propertyNames": {"format": "date-time"}})
    out.append({"propertyNames": {"pattern": "^_"}})
    out.append({"patternProperties": {"^_": {"type": "integer"}, "": {}}})
    out.append({"additionalProperties": {"multipleOf": 0.1}})
    out.append({"dependencies": {"__dict__": ["a"], "a": {"required": ["__dict__"]}}})
    out.append({"required": ["__dict__", "_dict", ""]})
    # several patterns, each a valid expression on its own, next to an undeclared required name
    for pats in (["^a", "(?i)^b"], ["(?P<n>a)", "(?P<n>b)"], ["a|", "c$"], ["(?i)x", "(?s)y", "(?m)z"], ["^(a)\\1", "^(b)\\1"], ["a(?#comment)", "(?x) b "]):
        for ap in (False, {"type": "integer"}, True):
            out.append({"required": ["zz", "b"], "additionalProperties": ap, "patternProperties": {p: {} for p in pats}})
            out.append({"required": ["zz"], "properties": {"b": {}}, "additionalProperties": ap, "patternProperties": {p: {"type": "integer"} for p in reversed(pats)}})
    out.append({"default": 10 ** 400})
    # integers beyond the interpreter's int -> decimal string conversion limit (4300 digits)
    big = 10 ** 5000
    out += [{"maximum": big}, {"minimum": -big}, {"exclusiveMaximum": big}, {"multipleOf": big}, {"const": big}, {"enum": [big, -big]}, {"default": big}, {"items": {"maximum": big}}, {"maxLength": big}, {"minItems": big}, {"required": ["a"], "properties": {"a": {"const": big}}}]
    return out


TYPES = [None, "number", "integer", "string", "array", "object", ["number", "string"], ["object", "array", "null"]]


TYPES_QUICK = [None, "number", "integer", "string", "object", ["object", "array", "null"]]


def extreme_schemas(tier):
    atoms = extreme_atoms()
    out = []
    for a in atoms:
        for t in (TYPES if tier == "thorough" else TYPES_QUICK):
            s = dict(a)
            if t is not None:
                s["type"] = t
                if "object" in (t if isinstance(t, list) else [t]):
                    s["title"] = "Obj"
            out.append(s)
    # weird member names: typed (model class) and untyped objects, with defaults and required
    for name in WEIRD_NAMES:
        for typed in (True, False):
            for extra in ({}, {"required": [name]}, {"additionalProperties": False}):
                for sub in ({}, {"type": "integer"}, {"default": 1}):
                    s = {"properties": {name: sub}, **extra}
                    if typed:
                        s.update(type="object", title="Obj")
                    out.append(s)
    # pairs of extreme atoms (distinct keywords)
    pair_pool = atoms if tier == "thorough" else atoms[::4]
    for a, b in itertools.combinations(pair_pool, 2):
        if set(a) & set(b):
            continue
        out.append({**a, **b})
    # nested once under the usual sub-schema positions
    for a in atoms[:: (1 if tier == "thorough" else 3)]:
        for w in ("items", "properties.a", "additionalProperties", "anyOf0", "oneOf0", "allOf0", "not", "contains"):
            out.append(A.wrap(w, a))
    return out


CORNER_SCHEMAS = [
    {"required": []}, {"dependencies": {"a": []}}, {"type": ["string"]}, {"type": []} , {"type": ["object"], "title": "!!!"},
    {"type": "object", "title": "123"}, {"type": "object", "title": "é"}, {"type": "object", "title": " "},
    {"type": "object"}, {"type": "object", "title": ""}, {"type": "object", "title": "class"}, {"type": "object", "title": "None"},
    {"type": "object", "_x_autotitle": "Auto"}, {"type": "object", "title": "a", "properties": {"": {}, " ": {}, "_": {}, "__": {}}},
    {"properties": {"a": {"type": "object"}}}, {"items": [{"type": "object"}]}, {"anyOf": [{"type": "object"}]},
    {"enum": []} , {"enum": [1, 1]}, {"items": []}, {"allOf": [True]}, {"anyOf": [False]}, {"oneOf": [{}]}, {"not": True},
    {"definitions": {"x": {"type": "object"}}}, {"definitions": {"x": 1}}, {"properties": {}}, {"patternProperties": {}},
    {"dependencies": {}}, {"title": 1}, {"description": 1}, {"default": {"_x_autotitle": "t"}}, {"const": {"type": "object"}},
    {"type": "object", "title": "T", "required": ["a", "a"]}, {"type": "object", "title": "T", "properties": {"a b": {}, "a_b": {}, "a-b": {}}},
    {"type": "object", "title": "T", "properties": {"class": {}, "class_": {}}}, {"type": "array", "items": [{}], "additionalItems": False},
    {"type": "object", "title": "T", "patternProperties": {"(": {}}} , {"pattern": "("}, {"format": 1}, {"type": "object", "title": "T", "default": 1},
    {"type": "object", "title": "T", "default": {"a": 1}, "properties": {"a": {"type": "string"}}}, {"$ref": "#"}, {"$id": "x", "$schema": "y"},
]


# unknown keywords whose names coincide with Python-level parameter / attribute names of the element constructors
for _kw in ("self", "cls", "args", "kwargs", "value", "property_", "element", "elements", "mode", "name", "bases", "classdict", "validators", "annotation", "type_validator", "_properties", "__class__", "__init__"):
    for _val in (1, {}, "x", None, {"type": "string"}):
        CORNER_SCHEMAS.append({_kw: _val})
        for _t in ("string", "integer", "array", "object", ["string", "null"]):
            CORNER_SCHEMAS.append({"type": _t, "title": "T", _kw: _val, "anyOf": [{}]} if _val == 1 else {"type": _t, "title": "T", _kw: _val})


def _deep_schema(n, kw):
    node = {"type": "integer"}
    for _ in range(n):
        if kw == "items":
            node = {"items": node}
        elif kw == "properties":
            node = {"properties": {"a": node}}
        elif kw == "not":
            node = {"not": node}
        elif kw == "anyOf":
            node = {"anyOf": [node, {"type": "null"}]}
        elif kw == "additionalProperties":
            node = {"type": "object", "title": "D", "additionalProperties": node}
    return node


def _diamonds(n):
    """n stacked diamonds: every object schema holds the SAME sub-schema object under two properties (what reference
    resolution produces for two $refs to one definition); finite, small, and 2**n paths from the root."""
    node = {"type": "integer"}
    for i in range(n):
        node = {"type": "object", "title": "L%d" % i, "properties": {"left": node, "right": node}}
    return node


# finite but deep schemas: parsing may refuse them (schema-parse family), nothing else may escape
DEEP_SCHEMAS = [(n, kw) for n in (50, 150, 300, 400, 700, 1500) for kw in ("items", "properties", "not", "anyOf", "additionalProperties")]


def reversed_validator_order():
    """Context manager: iterate validator classes in reversed name order (harness-side patch)."""
    import contextlib

    import statham.schema.validation as val

    @contextlib.contextmanager
    def ctx(reverse):
        orig = getattr(val, "_all_subclasses", None)
        if orig is None:
            yield False
            return

        def patched(klass):
            return sorted(orig(klass), key=lambda c: c.__name__, reverse=reverse)

        val._all_subclasses = patched
        try:
            yield True
        finally:
            val._all_subclasses = orig

    return ctx


def size(v):
    if isinstance(v, list):
        return 1 + sum(size(x) for x in v)
    if isinstance(v, dict):
        return 1 + sum(size(x) for x in v.values())
    return 1


def _huge_int(v, depth=0):
    """Contains an integer beyond the interpreter's int -> decimal string conversion limit?"""
    if isinstance(v, bool) or depth > 200:
        return False
    if isinstance(v, int):
        return v.bit_length() > 14000
    if isinstance(v, (list, tuple)):
        return any(_huge_int(x, depth + 1) for x in v)
    if isinstance(v, dict):
        return any(_huge_int(x, depth + 1) for x in v.values())
    return False


def escape_key(res, schema, value):
    if isinstance(res, ValueError) and "integer string conversion" in str(res) and (_huge_int(value) or _huge_int(schema)):
        # narrow root cause (recorded finding): the failure message renders a >4300-digit integer with repr()
        return "escaped:ValueError:int-max-str-digits"
    return "escaped:%s@%s" % (type(res).__name__, impl.where(res))


def judge_call(st, schema, el, value, tag):
    kind, res = impl.do_call(el, value, budget=BUDGET + 5_000 * size(value))
    st.add("evaluations")
    st.add("traces")
    st.outcome("call/" + kind)
    if kind not in ALLOWED_CALL:
        et = type(res).__name__
        st.violation(escape_key(res, schema, value) if kind != impl.TIMEOUT else "budget-exceeded", "%s schema %s value %s -> %s %r" % (tag, json.dumps(runner.jsonable(schema))[:200], json.dumps(runner.jsonable(value))[:100], kind, res), {"schema": schema, "value": runner.jsonable(value), "value_repr": runner.safe_repr(value), "observed": kind, "exception": repr(res)[:300]})
    return kind


def judge_parse(st, schema):
    kind, el = impl.do_parse(schema, budget=BUDGET)
    st.outcome("parse/" + kind)
    st.add("parses")
    if kind not in (impl.ELEMENT, impl.PARSE_ERROR):
        st.violation("parse-escaped:%s@%s" % (type(el).__name__, impl.where(el)), "parse of %s -> %s %r" % (json.dumps(runner.jsonable(schema))[:300], kind, el), {"schema": schema, "observed": kind, "exception": repr(el)[:300]})
        return None
    return el if kind == impl.ELEMENT else None


def plan(tier, seed):
    items = [("lat", ("d1",))] + [("lat", ("d2", i)) for i in range(A.N)] + [("lat", ("wrap1", w)) for w in A.WRAPPERS]
    schemas = extreme_schemas(tier)
    n = len(schemas)
    chunk = 40
    items += [("ext", lo, min(lo + chunk, n)) for lo in range(0, n, chunk)]
    items += [("corner",)] + [("fmt", r, r + 1) for r in range(16)]
    return {"items": items, "meta": {"tier": tier, "extreme_schemas": n, "extreme_values": len(extreme_values()), "corner_schemas": len(CORNER_SCHEMAS), "budget_call_events": BUDGET, "exhaustive": True}}


_EXT = {}


def work(item):
    st = runner.Stats()
    if item[0] == "lat":
        for sid, schema, values, ntrans in lattice.expand(item[1]):
            if schema is None or not metaschema_valid(schema):
                continue
            st.add("states")
            st.add("transitions", ntrans)
            el = judge_parse(st, schema)
            if el is None:
                continue
            kinds = set()
            for v in values:
                kind, res = impl.do_call(el, v)
                st.add("evaluations")
                st.add("traces")
                kinds.add(kind)
                st.outcome("call/" + kind)
                if kind not in ALLOWED_CALL:
                    st.violation("escaped:%s@%s" % (type(res).__name__, impl.where(res)), "schema %s value %r -> %r" % (json.dumps(schema)[:200], v, res), {"schema": schema, "value": v, "observed": kind, "exception": repr(res)[:300]})
            if len(kinds) > 1:
                st.add("nontrivial")
    elif item[0] == "ext":
        tier = _TIER[0]
        schemas = _EXT.setdefault(tier, extreme_schemas(tier))
        vals = extreme_values()
        ctx = reversed_validator_order()
        for schema in schemas[item[1]:item[2]]:
            if not metaschema_valid(runner_safe(schema)):
                st.add("dropped_not_metaschema_valid")
                continue
            st.add("states")
            st.add("transitions", max(1, len([k for k in schema if k not in ("title", "type")])))
            results = {}
            for reverse in (False, True):
                with ctx(reverse) as patched:
                    if not patched:
                        st.notes["validator-order patch unavailable"] += 1
                    el = judge_parse(st, schema)
                    if el is None:
                        break
                    for n, v in enumerate(vals):
                        k = judge_call(st, schema, el, v, "rev" if reverse else "nat")
                        st.add("nontrivial") if not reverse else None
                        prev = results.setdefault(n, k)
                        if {prev, k} == {impl.ACCEPT, impl.REJECT} or (impl.ACCEPT in (prev, k) and prev != k):
                            st.violation("order-dependent-verdict", "verdict depends on validator iteration order: %s vs %s" % (prev, k), {"schema": schema, "value": runner.jsonable(v), "natural": prev, "reversed": k})
                    # NaN: counted, not judged
                    kn, _ = impl.do_call(el, NAN, budget=BUDGET)
                    st.notes["nan/" + kn] += 1
            if st.c["states"] % 37 == 1:
                st.sample({"extreme_schema": runner.jsonable(schema), "values": len(vals)})
    elif item[0] == "fmt":
        format_layer(st, item[1], item[2])
    elif item[0] == "corner":
        from statham.schema.exceptions import SchemaParseError
        from statham.schema.parser import parse_element as _pe

        for n, kw in DEEP_SCHEMAS:
            # built fresh and handed over without copying: the harness's own deepcopy / metaschema walk would overflow first
            schema = _deep_schema(n, kw)
            st.add("states")
            st.add("transitions")
            try:
                _pe(schema)
                kind = impl.ELEMENT
            except SchemaParseError:
                kind = impl.PARSE_ERROR
            except BaseException as exc:  # noqa
                kind = "OTHER:" + type(exc).__name__
            st.outcome("parse-deep/" + kind)
            if kind not in (impl.ELEMENT, impl.PARSE_ERROR):
                st.violation("parse-escaped:%s:deep-finite-schema" % kind.split(":", 1)[1], "a finite schema nested %d levels through %r makes parsing raise %s" % (n, kw, kind), {"depth": n, "keyword": kw, "observed": kind})
        # the document-level entry point over the same corner family (+ the two boolean schemas)
        import copy as _copy

        from statham.schema.parser import parse as _parse

        for schema in CORNER_SCHEMAS + [True, False, {"definitions": {"a": True, "b": False}}, {"definitions": {}}, {"definitions": {"": {"type": "object"}}}, {"definitions": {"a": {"type": "object", "title": "A"}, "b": {"type": "object", "title": "A"}}}]:
            if not metaschema_valid(schema):
                continue
            st.add("states")
            st.add("transitions")
            st.add("parses")
            try:
                got = impl.with_budget(lambda: _parse(_copy.deepcopy(schema)), BUDGET)
                kind = "elements" if isinstance(got, list) and got else "odd-result"
            except SchemaParseError:
                kind = impl.PARSE_ERROR
            except impl.Budget:
                kind = "TIMEOUT"
            except BaseException as exc:  # noqa
                kind = "OTHER:%s@%s" % (type(exc).__name__, impl.where(exc))
            st.outcome("parse-document/" + kind.split(":")[0])
            if kind not in ("elements", impl.PARSE_ERROR):
                st.violation("parse-document-escaped:%s" % kind.split(":", 1)[-1], "parse(%s) -> %s" % (json.dumps(runner.jsonable(schema))[:200], kind), {"schema": schema, "entry": "parse", "observed": kind})
        for n in (8, 16, 24, 40):
            schema = _diamonds(n)
            st.add("states")
            st.add("transitions")
            try:
                impl.with_budget(lambda: _pe(schema), 400_000)
                kind = impl.ELEMENT
            except SchemaParseError:
                kind = impl.PARSE_ERROR
            except impl.Budget:
                kind = "TIMEOUT"
            except BaseException as exc:  # noqa
                kind = "OTHER:" + type(exc).__name__
            st.outcome("parse-diamonds/" + kind)
            if kind not in (impl.ELEMENT, impl.PARSE_ERROR):
                st.violation("parse-shared-subschemas:%s" % kind, "%d stacked diamonds (a %d-node document with shared sub-schema objects): parsing gives %s" % (n, n + 1, kind), {"diamonds": n, "observed": kind})
        for schema in CORNER_SCHEMAS:
            if not metaschema_valid(schema):
                st.add("dropped_not_metaschema_valid")
                continue
            st.add("states")
            st.add("transitions")
            el = judge_parse(st, schema)
            if el is not None:
                for v in (None, 1, "a", [], {}, {"a": 1}, [1]):
                    judge_call(st, schema, el, v, "corner")
    return st


def format_grammar():
    """Strings around the shapes the built-in checkers' parsers look for: digit runs of many lengths between separators."""
    prefixes = ["", "10:", "10:10:", "2020-01-01T10:10:", "2020-01-01T", "2020-", "T", "0.", "-", "+", "1e", "1E+", "10:10:10.", "10:10:10+", "1 ", "jan ", "{", "urn:uuid:"]
    runs = [1, 2, 4, 5, 8, 12, 19, 20, 27, 28, 29, 30, 31, 32, 33, 60, 400, 4400]
    suffixes = ["", "Z", ":00", " UTC", ".5", "-", "}", " pm", "e5"]
    for p in prefixes:
        for n in runs:
            for d in ("9", "0", "1"):
                for x in suffixes:
                    yield p + d * n + x


def format_layer(st, lo, hi):
    for fmt in ("date-time", "uuid"):
        els = [String(format=fmt), Element(format=fmt), parse_element({"type": "string", "format": fmt}), parse_element({"properties": {"a": {"format": fmt}}}), parse_element({"anyOf": [{"format": fmt}, {"type": "null"}]})]
        for n, v in enumerate(format_grammar()):
            if not lo <= n % 16 < hi:
                continue
            for k, el in enumerate(els):
                judge_call(st, {"format": fmt, "element": k}, el, {"a": v} if k == 3 else v, "fmt")
            st.add("states")
            st.add("transitions")


def runner_safe(schema):
    return schema


_TIER = ["quick"]


def replay(case):
    st = runner.Stats()
    el = judge_parse(st, case["schema"])
    if el is not None and "value_repr" in case:
        try:
            v = eval(case["value_repr"], {"inf": float("inf"), "nan": float("nan")})
        except Exception:
            v = case["value"]
        judge_call(st, case["schema"], el, v, "replay")
    elif el is not None and "value" in case:
        judge_call(st, case["schema"], el, case["value"], "replay")
    return [v for lst in st.violations.values() for _, v in lst]


def _main():
    # the tier is needed inside workers to size the extreme family
    for i, a in enumerate(sys.argv):
        if a == "--tier" and i + 1 < len(sys.argv):
            _TIER[0] = sys.argv[i + 1]
    import os

    if os.environ.get("VERIF_TIER") and "--tier" not in sys.argv:
        _TIER[0] = os.environ["VERIF_TIER"]
    return runner.main(sys.modules[__name__])


if __name__ == "__main__":
    sys.exit(_main())
