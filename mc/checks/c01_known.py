"""Narrow root-cause predicates for C01 findings recorded in known_findings.json."""


def classify(schema, value, expected, kind):
    return None
