"""C18 — an element's repr is the expression that rebuilds it.

E1 over the DSL element family (all keyword subsets <= 2 / 3, a literal alphabet incl. None False 0 "" [] {} nested
containers and awkward strings, nested elements, compositions, arrays, properties unbound / bound / renamed / required).
Oracle: eval(repr(x)) in a namespace holding the public element classes (+ Property, + the tree's object classes by
name) equals x; the repr's AST carries exactly the keywords whose value differs from the constructor default.
"""
import ast
import copy
import inspect
import itertools
import sys

from mc import impl, runner
from mc.gen import elements as E

import statham.schema.elements as elements_mod
from statham.schema.constants import NotPassed
from statham.schema.elements import AllOf, AnyOf, Array, Boolean, Element, Integer, Not, Nothing, Null, Number, Object, OneOf, String
from statham.schema.elements.meta import ObjectMeta
from statham.schema.property import Property, _Property
from statham.serializers.orderer import get_children

PROP = "C18"
LEVEL = "model_checking"
RULE = (
    "exhaustive enumeration of the DSL element family (every element class x every keyword subset of size <=3 (thorough 4) x literal "
    "choices), a literal alphabet placed under const/default/enum, nested elements/compositions/arrays, and property wrappers in "
    "all binding states; each repr is evaluated in a namespace of the public element classes and compared with the original, and its "
    "AST keyword set is compared with the set of non-default constructor arguments; non-trivial = elements with at least one "
    "non-default keyword or a nested element"
)
ASSUMPTIONS = [
    "a bound property is compared after binding the evaluated copy under the same name (its repr is designed to sit in a class body)",
    "keyword values are of the type the constructor documents (no additionalItems=1 for a boolean slot)",
]

NP = NotPassed()
LITERALS = [None, False, True, 0, 1, -1, 1.5, 0.0, 10 ** 400, -(2 ** 1024), 1e308, [10 ** 400], "", "a", 'q"uote', "it's", "back\\slash", "new\nline", "é☕", "{x}", [], [1], [None, False, ""], [[1], {"a": [True]}], {}, {"a": 1}, {"a": {"b": [1, None]}}, {"default": 1}, {"'": '"'}]


def literal_elements():
    out = []
    for l in LITERALS:
        out.append(("Element(const=%r)" % (l,), lambda l=l: Element(const=copy.deepcopy(l))))
        out.append(("Element(default=%r)" % (l,), lambda l=l: Element(default=copy.deepcopy(l))))
        out.append(("String(default=%r)" % (l,), lambda l=l: String(default=copy.deepcopy(l))))
        out.append(("AnyOf(String(), Null(), default=%r)" % (l,), lambda l=l: AnyOf(String(), Null(), default=copy.deepcopy(l))))
        out.append(("Not(String(), default=%r)" % (l,), lambda l=l: Not(String(), default=copy.deepcopy(l))))
        out.append(("Array(Element(), default=%r)" % (l,), lambda l=l: Array(Element(), default=copy.deepcopy(l))))
    for a, b in itertools.combinations(LITERALS, 2):
        out.append(("Element(enum=[%r, %r])" % (a, b), lambda a=a, b=b: Element(enum=[copy.deepcopy(a), copy.deepcopy(b)])))
    for d in ("", "text", 'q"', "'''", "\\", "\n", "é"):
        out.append(("Element(description=%r)" % d, lambda d=d: Element(description=d)))
        out.append(("String(pattern=%r)" % d, lambda d=d: String(pattern=d)))
    return out


def _reused(which, first="count", second="total", inline=False):
    """One Property wrapper placed in two holders under different names; returns one of the holders."""
    p = Property(Integer(minimum=0), required=True)
    if inline:
        h1 = Object.inline("H1", properties={first: p})
        h2 = Object.inline("H2", properties={second: p})
        return Array((h1, h2)[which])
    h1 = Element(properties={first: p})
    h2 = Element(properties={second: p})
    return (h1, h2)[which]


def nested_elements():
    return [
        ("Element(additionalProperties=Element())", lambda: Element(additionalProperties=Element())),
        ("Element(additionalItems=Element())", lambda: Element(additionalItems=Element())),
        ("Element(items=[..], additionalItems=Element())", lambda: Element(items=[String()], additionalItems=Element())),
        ("Array(String(), additionalItems=Element())", lambda: Array(String(), additionalItems=Element())),
        ("Array([..], additionalItems=Element(), additionalProperties nested)", lambda: Array([Element(additionalProperties=Element(), additionalItems=Nothing())], additionalItems=Element())),
        ("Element(additionalProperties=Nothing(), additionalItems=True)", lambda: Element(additionalProperties=Nothing(), additionalItems=True)),
        ("Element(additionalProperties=True, additionalItems=False)", lambda: Element(additionalProperties=True, additionalItems=False)),
        ("Element(items=Element(), contains=Element(), propertyNames=Element())", lambda: Element(items=Element(), contains=Element(), propertyNames=Element())),
        ("keys with explicit sources equal to the key", lambda: Element(properties={"class_": Property(String(), source="class_"), "from_": Property(Integer(), source="from_"), "klass_": Property(Null(), source="klass_"), "": Property(Boolean(), source="")})),
        ("keyword-like keys without sources", lambda: Element(properties={"class_": Property(String()), "from_": Property(Integer()), "_": Property(Null()), "": Property(Boolean())})),
        ("keyword-like keys with the keyword as source", lambda: Element(properties={"class_": Property(String(), source="class"), "from_": Property(Integer(), source="from"), "x": Property(Null(), source="x_")})),
        ("inline model with explicit sources equal to the key", lambda: Array(Object.inline("Kw", properties={"class_": Property(String(), source="class_"), "def_": Property(Integer(), source="def")}))),
        ("first holder of a re-used Property", lambda: _reused(0)),
        ("second holder of a re-used Property", lambda: _reused(1)),
        ("first holder of a re-used Property (same name)", lambda: _reused(0, "n", "n")),
        ("first inline holder of a re-used Property", lambda: _reused(0, inline=True)),
        ("second inline holder of a re-used Property", lambda: _reused(1, inline=True)),
        ("one Property under two keys", lambda: (lambda p: Element(properties={"x": p, "y": p}))(Property(String(default="d")))),
        ("Element(items=String())", lambda: Element(items=String())),
        ("Element(items=[String(), Integer(minimum=1)])", lambda: Element(items=[String(), Integer(minimum=1)], additionalItems=False)),
        ("Element(additionalItems=Element(const=None))", lambda: Element(items=[Element()], additionalItems=Element(const=None))),
        ("Element(contains)", lambda: Element(contains=Integer(maximum=0))),
        ("Element(propertyNames)", lambda: Element(propertyNames=String(maxLength=1))),
        ("Element(patternProperties)", lambda: Element(patternProperties={"^a": String(), "b$": Element(enum=[1, None])})),
        ("Element(additionalProperties=Element)", lambda: Element(additionalProperties=Integer(default=0))),
        ("Element(additionalProperties=False)", lambda: Element(additionalProperties=False)),
        ("Element(dependencies mixed)", lambda: Element(dependencies={"a": ["b"], "c": Element(required=["d"]), "e": []})),
        ("Element(properties)", lambda: Element(properties={"a": Property(String()), "b": Property(Integer(default=1), required=True)})),
        ("Element(properties renamed)", lambda: Element(properties={"class_": Property(String(), source="class"), "a_b": Property(Element(), source="a b", required=True)})),
        ("Element(properties={})", lambda: Element(properties={})),
        ("Element(required=[])", lambda: Element(required=[])),
        ("Element(enum=[])", lambda: Element(enum=[])),
        ("Array(String())", lambda: Array(String())),
        ("Array([String(), Integer()])", lambda: Array([String(), Integer()], additionalItems=Number(), minItems=0)),
        ("Array(Array(Array(Null())))", lambda: Array(Array(Array(Null()), uniqueItems=True), maxItems=0)),
        ("Array([])", lambda: Array([])),
        ("AnyOf(nested)", lambda: AnyOf(AllOf(Integer(), Element(multipleOf=2)), OneOf(String(), Array(String())), Not(Element()), default=None)),
        ("OneOf(single)", lambda: OneOf(String())),
        ("Not(Not(Nothing()))", lambda: Not(Not(Nothing()))),
        ("Nothing()", lambda: Nothing()),
        ("Array(class)", lambda: Array(E._cls_plain())),
        ("AnyOf(classes)", lambda: AnyOf(E._cls_plain(), E._cls_renamed(), default={"b": "s"})),
        ("Element(properties class)", lambda: Element(properties={"o": Property(E._cls_nested(), required=True)}, additionalProperties=E._cls_plain())),
        ("Not(class)", lambda: Not(E._cls_plain())),
        ("Element(huge bounds)", lambda: Element(minimum=10 ** 400, maximum=-(10 ** 400), multipleOf=2 ** 1024)),
        ("Integer(default huge)", lambda: Integer(default=10 ** 400, exclusiveMaximum=10 ** 400)),
        ("Element(default dict omitting a declared property)", lambda: Element(default={"verbose": True}, properties={"verbose": Property(Boolean()), "level": Property(Integer()), "x_tag": Property(String(), source="x-tag")})),
        ("Outer(optional Element with dict default)", lambda: Element(properties={"opts": Property(Element(default={"verbose": True}, properties={"verbose": Property(Boolean()), "level": Property(Integer(default=2))}))})),
        ("Array(default list of dicts)", lambda: Array(Element(properties={"k": Property(Integer(default=1))}), default=[{}, {"k": 2}])),
        ("Element(all numeric)", lambda: Element(minimum=0, maximum=1.5, exclusiveMinimum=-1, exclusiveMaximum=2, multipleOf=0.5)),
        ("Element(all falsy)", lambda: Element(minimum=0, minItems=0, minLength=0, minProperties=0, maxItems=0, const=0, default=0, pattern="", format="")),
    ]


def property_cases():
    """(label, factory -> (prop, bind_name or None))"""
    out = []
    for el_label, el in (("String()", lambda: String()), ("Integer(default=1)", lambda: Integer(default=1)), ("Array(Element())", lambda: Array(Element())), ("AnyOf(String(), Null())", lambda: AnyOf(String(), Null()))):
        for req in (False, True):
            for src in (None, "class", "a b", "", "class_", "a"):
                out.append(("Property(%s, required=%s, source=%r) unbound" % (el_label, req, src), lambda el=el, req=req, src=src: (Property(el(), required=req, source=src), None)))
                for bind in ("a", "class_", "", "from_"):
                    def f(el=el, req=req, src=src, bind=bind):
                        p = Property(el(), required=req, source=src)
                        p.bind(name=bind, parent=Element())
                        return p, bind

                    out.append(("Property(%s, required=%s, source=%r) bound as %s" % (el_label, req, src, bind), f))
    # one Property object bound under one name and later re-used under another (a genuine rename: name != source)
    for el_label, el in (("String()", lambda: String()), ("Integer(default=1)", lambda: Integer(default=1))):
        for first, second in (("a", "b"), ("a", "a"), ("class_", "x")):
            def g(el=el, first=first, second=second):
                p = Property(el())
                Element(properties={first: p})
                holder = Element(properties={second: p})
                return p, second

            out.append(("Property(%s) bound as %s, then re-used as %s" % (el_label, first, second), g))

            def h(el=el, first=first, second=second):
                p = Property(el())

                class A(Object):
                    pass

                A.properties[first] = p

                class B(Object):
                    pass

                B.properties[second] = p
                return p, second

            out.append(("Property(%s) in class under %s, then in another class under %s" % (el_label, first, second), h))
    return out


def threaded_repr(st, shard=None):
    """E3 on repr: two threads render the same shared element (directly and as a child of another element) at the same
    time; every schedule with <= 1 preemption at line granularity; each repr must equal the sequential one."""
    from mc import sched

    cases = {
        "same-element": lambda: (lambda e: [e, e])(AnyOf(String(minLength=1), Array(Integer(minimum=2)), default="x")),
        "element-and-parent": lambda: (lambda e: [e, Array(e, minItems=1)])(Element(properties={"a": Property(String(), required=True)}, required=["z"])),
    }
    for label, mk in cases.items():
        want = [repr(x) for x in mk()]

        def make_bodies():
            els = mk()
            return [(lambda x=x: repr(x)) for x in els], els

        def check(ex, els, schedule):
            st.add("evaluations")
            st.add("states")
            st.add("traces")
            st.add("transitions", ex.steps)
            got = [ex.results.get(i) for i in range(len(want))]
            if got != want or ex.errors:
                st.violation("concurrent-repr-differs", "%s: under schedule %s the reprs are %s (errors %s), sequentially %s" % (label, sorted(schedule.items()), got, ex.errors, want), {"case": label, "schedule": sorted(schedule.items()), "got": got, "sequential": want}, rank=len(schedule))

        try:
            for start in (0, 1):
                res = sched.explore(make_bodies, check, 1, "line", base={0: start}, shard=shard or (0, 1))
                st.add("schedules", res["executions"])
        except (sched.ScheduleDivergence, sched.Deadlock) as exc:
            st.violation("HARNESS:%s" % type(exc).__name__, "%s: %s" % (label, exc), {"case": label})
    st.outcome("threaded-repr")


def namespace(x):
    ns = {name: getattr(elements_mod, name) for name in ("AllOf", "AnyOf", "Array", "Boolean", "Element", "Integer", "Not", "Nothing", "Null", "Number", "Object", "OneOf", "String")}
    ns["Property"] = Property
    roots = [x] if not isinstance(x, _Property) else [x.element]
    for r in roots:
        for el in [r] + list(get_children(r)):
            if isinstance(el, ObjectMeta):
                ns[el.__name__] = el
    return ns


def same_as_default(value, default):
    if isinstance(default, NotPassed):
        return isinstance(value, NotPassed)
    if isinstance(value, NotPassed):
        return False
    return type(value) is type(default) and value == default


def expected_keywords(x):
    kws = set()
    for p in list(inspect.signature(type(x).__init__).parameters.values())[1:]:
        if p.kind != p.KEYWORD_ONLY:
            continue
        v = getattr(x, p.name, NP) if not (p.name == "properties") else getattr(x, "properties", NP)
        if not same_as_default(v, p.default):
            kws.add(p.name)
    return kws


def check_element(st, label, factory, rank=0):
    x = factory()
    st.add("states")
    st.add("transitions")
    st.add("evaluations")
    case = {"element": label}
    try:
        text = repr(x)
    except Exception as exc:
        st.violation("repr-raised:%s" % type(exc).__name__, "%s: %r" % (label, exc), case, rank)
        return
    case["repr"] = text[:600]
    try:
        y = eval(text, namespace(x))
    except Exception as exc:
        st.violation("repr-not-evaluable:%s" % type(exc).__name__, "%s: eval(%s) raised %r" % (label, text[:200], exc), case, rank)
        return
    st.add("traces")
    try:
        eq = (y == x) and (x == y)
    except Exception as exc:
        eq = False
    if not eq:
        st.violation("repr-does-not-rebuild", "%s: eval(repr) = %r is not equal to the original (repr %s)" % (label, y, text[:200]), case, rank)
    elif type(y) is not type(x):
        st.violation("repr-rebuilds-other-class", "%s: eval(repr) is a %s" % (label, type(y).__name__), case, rank)
    try:
        tree = ast.parse(text, mode="eval").body
        if isinstance(tree, ast.Call) and not isinstance(x, ObjectMeta):
            got = {k.arg for k in tree.keywords}
            want = expected_keywords(x)
            if got != want:
                st.violation("repr-keywords:%s" % ("missing" if want - got else "superfluous"), "%s: repr shows keywords %s, non-default constructor arguments are %s" % (label, sorted(got), sorted(want)), {**case, "shown": sorted(got), "non_default": sorted(want)}, rank)
            if got or tree.args:
                st.add("nontrivial")
    except SyntaxError:
        pass
    st.outcome("rebuilds" if eq else "differs")
    # the repr must still be the rebuilding expression after the element has been used (a validation that leaves markers
    # or other debris in a literal shows up as a repr that no longer evaluates)
    if eq and not isinstance(x, ObjectMeta):
        for v in (NP, {}, {"opts": {}}, [], 1, "a", {"verbose": False}):
            impl.do_call(x, v)
        try:
            text2 = repr(x)
            y2 = eval(text2, namespace(x))
            if not (y2 == x):
                st.violation("repr-after-use-does-not-rebuild", "%s: after some validations repr is %s, which does not rebuild the element" % (label, text2[:200]), {**case, "repr_after_use": text2[:600]}, rank)
            elif text2 != text and y2 == y:
                # the text may differ (a wrapper shared by two holders shows its JSON name or not, depending on who used it
                # last) as long as it rebuilds the same element: that is all the property asks
                st.outcome("repr-text-changed-by-use-but-rebuilds-the-same")
            elif text2 != text:
                st.violation("repr-changed-by-use", "%s: repr before use %s, after use %s" % (label, text[:150], text2[:150]), {**case, "repr_after_use": text2[:600]}, rank)
        except Exception as exc:
            st.violation("repr-after-use-not-evaluable:%s" % type(exc).__name__, "%s: after some validations: %r" % (label, exc), case, rank)


def check_property(st, label, factory, rank=0):
    p, bind = factory()
    st.add("states")
    st.add("transitions")
    st.add("evaluations")
    text = repr(p)
    case = {"property": label, "repr": text}
    try:
        q = eval(text, namespace(p))
    except Exception as exc:
        st.violation("repr-not-evaluable:%s" % type(exc).__name__, "%s: eval(%s) raised %r" % (label, text, exc), case, rank)
        return
    st.add("traces")
    st.add("nontrivial")
    if bind:
        q.bind(name=bind, parent=Element())
    if p.name is not None and p.source != p.name and "source=" not in text:
        st.violation("property-repr-drops-source", "%s: the property is bound as %r with JSON name %r but its repr %s does not say so" % (label, p.name, p.source, text), case, rank)
    if not (q == p and p == q) or not isinstance(q, _Property):
        st.violation("property-repr-does-not-rebuild", "%s: eval(%s)%s is not equal to the original (source %r vs %r, required %r vs %r)" % (label, text, " bound as %s" % bind if bind else "", q.source, p.source, q.required, p.required), case, rank)
    tree = ast.parse(text, mode="eval").body
    got = {k.arg for k in tree.keywords}
    want = set()
    if p.required:
        want.add("required")
    if p.source is not None and p.source != p.name:
        want.add("source")
    if got != want:
        st.violation("repr-keywords:property", "%s: repr %s shows keywords %s, expected %s" % (label, text, sorted(got), sorted(want)), case, rank)
    st.outcome("property")


def all_cases(tier):
    els = E.arrays_and_compositions() + E.untyped_with_properties() + nested_elements() + literal_elements() + E.simple_elements(3 if tier == "quick" else 4)
    return els, property_cases()


def plan(tier, seed):
    els, props = all_cases(tier)
    chunk = 400
    items = [("el", lo, min(len(els), lo + chunk), tier) for lo in range(0, len(els), chunk)]
    items += [("prop", 0, len(props), tier)]
    items += [("threads", r, 8, tier) for r in range(8)]
    return {"items": items, "meta": {"elements": len(els), "properties": len(props), "literals": len(LITERALS), "keyword_subset_size": 3 if tier == "quick" else 4, "exhaustive": True}}


_CASES = {}


def work(item):
    st = runner.Stats()
    els, props = _CASES.setdefault(item[3], all_cases(item[3]))
    if item[0] == "threads":
        threaded_repr(st, (item[1], item[2]))
        if item[1] == 0:
            st.sample({"threaded_repr": "2 threads x 2 cases, <=1 preemption at line granularity"})
        return st
    if item[0] == "el":
        for label, fac in els[item[1]:item[2]]:
            check_element(st, label, fac)
        st.sample({"elements": [l for l, _ in els[item[1]:item[1] + 4]]})
    else:
        for label, fac in props:
            check_property(st, label, fac)
        st.sample({"properties": [l for l, _ in props[:4]]})
    return st


def replay(case):
    st = runner.Stats()
    if "schedule" in case:
        threaded_repr(st)
        return [v for lst in st.violations.values() for _, v in lst]
    els, props = all_cases("thorough")
    if "element" in case:
        for label, fac in els:
            if label == case["element"]:
                check_element(st, label, fac)
                break
    else:
        for label, fac in props:
            if label == case["property"]:
                check_property(st, label, fac)
                break
    return [v for lst in st.violations.values() for _, v in lst]


if __name__ == "__main__":
    sys.exit(runner.main(sys.modules[__name__]))
