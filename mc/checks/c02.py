"""C02 — generated Python models accept exactly what the source schema accepts.

E1 over the document family (ref shape x title shape x payloads x descriptions) x lifted value alphabet.  For each document
the module text comes from the real entry point statham.__main__.main (in-memory loader).  Oracle on every document:
(1) compile + exec in a namespace holding only __builtins__ (missing import / use-before-definition => NameError);
(2) the classes the module defines are in bijection (by name) with the distinct object classes of parse(load(doc));
(3) each generated class == its parsed namesake and gives the same verdict vector;
(4) the generated root accepts v iff the reference evaluator accepts v under the dereferenced source document
    (documented deviations are absorbed by the reference's Kleene mask; nothing is attributed away).
"""
import json
import sys

from mc import docs, impl, runner
from mc.gen import docs_family as DF
from mc.gen import values as VAL
from mc.ref import draft6 as R

from statham.schema.elements import Object
from statham.schema.elements.meta import ObjectMeta
from statham.schema.parser import parse
from statham.serializers.orderer import get_object_classes

PROP = "C02"
LEVEL = "model_checking"
RULE = (
    "exhaustive product of the document family: 15 reference shapes (lookalike twins under one title, equally shaped classes behind equal wrappers, none, local once/twice, chain, under items / "
    "additionalProperties / anyOf / patternProperties, non-object definition, unreferenced definitions, cross-file, cross-file with "
    "back reference, objects under all composition keywords) x 6 title shapes (untitled, titled, repeated title on different and "
    "equal schemas, titles needing CamelCasing, title equal to a sibling's automatic title) x payload pairs (quick: 13 pairs, "
    "thorough: all 121) + described documents; every document goes through the real generator; the module is compiled and "
    "executed in an empty namespace and every generated class is compared with the parsed one on a lifted value alphabet; "
    "non-trivial = documents whose root verdict vector is not constant"
)
ASSUMPTIONS = ["non-recursive documents only (C20 covers refusal of recursive ones); documents are served from memory through json_ref_dict's loader"]

WITNESSES = [{"examples": ["x"], "$comment": "c", "$schema": 1, "title": "t", "description": None, "type": "t", "definitions": {"examples": 2}, "$id": True}, {"examples": ["x"]}, {"examples": [1]}, {"examples": ["x"], "$schema": "no"}, {"examples": ["x"], "definitions": {"examples": "no"}}, {"$comment": "c"}, {"d": {"tags": [{"name": "x"}], "m": [[{"y": 0}]]}}, {"e2": [{"x": 0}]}, {"e2": {"l": [{"q": [{"r": 1}]}]}, "d": {"tags": [{"name": "x"}], "m": [[{"y": 0}]]}}, {"d": {"tags": [{"name": "y"}], "m": [[{"y": 0}]]}}, {"\ufb01le": "a"}, {"file": "a"}, {"\ufb01le": "a", "\uff2b": 1, "\u00b5": None}, {"k": 1}, {"k": True}, {"one": {"k": 1}, "two": {"k": True}}, {"one": {"k": True}}, {"two": {"k": 1}}, {}, {"a": 1, "b": "s"}, {"a": "x"}, {"class": "z", "a b": 1}, {"class": "z", "a b": 1, "a_b": None}, {"n": 1.5, "f": True}, {"a": 1}, {"x1": 1, "zz": "s"}, {"x1": "no"}, {"a": 1, "b": 2}, {"k": True, "c": {"a": [1, True]}}, {"k": "1"}, {"u": "s", "v": ["a"]}, {"u": 0}, {"l": [1], "m": [1, "a"]}, {"t": [1, "x"]}, {"a": 1, "c": 1}, {"a": 1, "c": 1, "d": 2}, 5, "s", None, [1]]


def values_for(doc):
    vals = list(VAL.V_SMALL)
    keys = set()

    def collect(node):
        if isinstance(node, dict):
            for k, v in node.items():
                if k in ("properties",) and isinstance(v, dict):
                    keys.update(v)
                collect(v)
        elif isinstance(node, list):
            for v in node:
                collect(v)

    collect(doc)
    for w in WITNESSES:
        vals.append(w)
        vals.append([w])
        for k in sorted(keys)[:5]:
            vals.append({k: w})
        vals.append({"a": {"b": {"c": w}}})
        vals.append({"p1": w, "p2": w, "arr": [w]})
        vals.append({"pz": w, "other": w})
    return vals


def distinct_object_schemas(materialized):
    """Independent count of the distinct object schemas of the dereferenced source document: an object schema is identified
    by its class name (formatted title, else automatic title) and its content with all naming annotations removed."""
    from statham.schema.parser import _title_format

    def strip(node):
        if isinstance(node, dict):
            return {k: strip(v) for k, v in node.items() if k not in ("title", "_x_autotitle", "definitions")}
        if isinstance(node, list):
            return [strip(v) for v in node]
        return node

    found = set()
    seen_ids = set()

    def walk(node):
        if isinstance(node, dict):
            if id(node) in seen_ids:
                return
            seen_ids.add(id(node))
            t = node.get("type")
            if t == "object" or (isinstance(t, list) and "object" in t):
                name = _title_format(node.get("title", "")) if isinstance(node.get("title"), str) else ""
                name = name or _title_format(node.get("_x_autotitle", ""))
                # the parser composes anyOf/oneOf/allOf/not (and the sibling default) around the object class proper
                composed = any(k in node for k in ("anyOf", "oneOf", "allOf", "not"))
                own = {k: v for k, v in node.items() if k not in (("anyOf", "oneOf", "allOf", "not", "default") if composed else ())}
                found.add((name, json.dumps(strip(own), sort_keys=True, default=str)))
            for k, v in node.items():
                if k in ("const", "enum", "default", "_x_autotitle", "title"):
                    continue
                walk(v)
        elif isinstance(node, list):
            for v in node:
                walk(v)

    walk(materialized)
    return found


def check_document(st, label, doc, extra, rank=0):
    case = {"document": label, "doc": doc, "extra": extra}
    st.add("states")
    st.add("transitions")
    try:
        text = docs.generate(doc, extra)
    except Exception as exc:
        st.violation("generator-raised:%s@%s" % (type(exc).__name__, impl.where(exc)), "%s: main() raised %r" % (label, exc), case, rank)
        return
    case["module"] = text[:3000]
    # (1) valid python, only declared imports, definitions before use
    ns = {"__builtins__": __builtins__}
    try:
        code = compile(text, "<generated:%s>" % label, "exec")
        exec(code, ns)
    except Exception as exc:
        st.violation("module-does-not-execute:%s" % type(exc).__name__, "%s: generated module fails: %r" % (label, exc), case, rank)
        return
    st.add("traces")
    # (2) class bijection
    try:
        materialized = docs.load(doc, extra)
        elements = parse(materialized)
    except Exception as exc:
        st.violation("parse-raised-but-generator-did-not:%s" % type(exc).__name__, "%s: %r" % (label, exc), case, rank)
        return
    parsed_classes = {}
    for c in get_object_classes(*elements):
        parsed_classes.setdefault(c.__name__, []).append(c)
    generated = {k: v for k, v in ns.items() if isinstance(v, ObjectMeta) and v is not Object}
    dup = [n for n, cs in parsed_classes.items() if any(c is not cs[0] for c in cs)]
    if dup:
        st.violation("two-distinct-classes-one-name", "%s: the parsed tree holds different classes under one name %s" % (label, dup), case, rank)
    if set(generated) != set(parsed_classes):
        st.violation("class-set-differs", "%s: module defines %s, the parsed document has object classes %s" % (label, sorted(generated), sorted(parsed_classes)), case, rank)
        return
    expected = distinct_object_schemas(docs.load(doc, extra))
    if len(expected) != len(generated):
        st.violation("class-count-differs-from-distinct-object-schemas", "%s: the source document has %d distinct object schemas %s, the module defines %d classes %s" % (label, len(expected), sorted(n for n, _ in expected), len(generated), sorted(generated)), case, rank)
    # one class statement per class
    for name in generated:
        n = text.count("class %s(" % name)
        if n != 1:
            st.violation("class-defined-%d-times" % n, "%s: class %s is defined %d times in the module" % (label, name, n), case, rank)
    vals = values_for(doc)
    # (3) equality + same behaviour, class by class
    for name, gen in generated.items():
        par = parsed_classes[name][0]
        try:
            eq = (gen == par) and (par == gen)
        except Exception:
            eq = False
        if not eq:
            st.violation("generated-class-not-equal", "%s: generated class %s != parsed class" % (label, name), case, rank)
            continue
        for v in vals[::2]:
            kg, rg = impl.do_call(gen, v)
            kp, rp = impl.do_call(par, v)
            st.add("evaluations")
            if kg != kp or (kg == impl.ACCEPT and _plain(rg) != _plain(rp)):
                st.violation("generated-class-behaves-differently", "%s: class %s on %s: generated %s, parsed %s" % (label, name, json.dumps(runner.jsonable(v))[:100], kg, kp), {**case, "value": v}, rank)
                break
    # (4) root element vs the source schema under Draft 6
    root = elements[0]
    # a fresh load: parse() has stored elements into the first materialized copy
    source = DF.strip_autotitles(json.loads(json.dumps(docs.load(doc, extra))))
    gen_root = generated.get(getattr(root, "__name__", None)) if isinstance(root, ObjectMeta) else None
    kinds = set()
    for v in vals:
        target = gen_root if gen_root is not None else root
        k, _ = impl.do_call(target, v)
        accepted = k == impl.ACCEPT
        kinds.add(accepted)
        try:
            mask = R.verdict(source, v, R.STATHAM)
        except Exception as exc:
            st.notes["reference-cannot-evaluate:" + type(exc).__name__] += 1
            break
        st.add("evaluations")
        if (accepted and mask & R.V) or (not accepted and mask & R.I):
            st.outcome("agree")
            continue
        # no attribution to C01 here: documents exercise what single schemas cannot (class de-duplication by title,
        # reference sharing), so a disagreement with the source schema is this property's own business
        st.violation("generated-root-differs-from-source-schema", "%s: value %s: generated root %s, source schema says %s" % (label, json.dumps(runner.jsonable(v))[:100], k, "valid" if mask & R.V else "invalid"), {**case, "value": v}, rank)
    if len(kinds) > 1:
        st.add("nontrivial")


def _plain(r):
    from mc.ref.embed import plain

    return impl.canon_result(plain(r))


_DOCS = {}


def plan(tier, seed):
    n = len(DF.documents(tier))
    chunk = 12
    mod = 16 if tier == "quick" else 8
    first = [("docs", i, i + 1, tier) for i in range(n) if i % mod == seed % mod]
    return {"items": [("docs", lo, min(n, lo + chunk), tier) for lo in range(0, n, chunk)], "pristine_items": first, "meta": {"documents_again_one_per_pristine_process": len(first), "documents": n, "ref_shapes": [s[0] for s in DF.ref_shapes()], "title_shapes": [t[0] for t in DF.TITLE_SHAPES], "payloads": [p[0] for p in DF.PAYLOADS], "exhaustive": True}}


def work(item):
    st = runner.Stats()
    ds = _DOCS.setdefault(item[3], DF.documents(item[3]))
    for label, doc, extra in ds[item[1]:item[2]]:
        check_document(st, label, doc, extra)
    st.sample({"documents": [l for l, _, _ in ds[item[1]:item[1] + 3]]})
    docs.clear()
    return st


def replay(case):
    st = runner.Stats()
    check_document(st, case["document"], case["doc"], case.get("extra"))
    return [v for lst in st.violations.values() for _, v in lst]


if __name__ == "__main__":
    sys.exit(runner.main(sys.modules[__name__]))
