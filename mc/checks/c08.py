"""C08 — validation is pure and repeatable.

E2 (history explorer) on the call alphabet validate(v): a state is the full canonical
snapshot of the element tree; because purity means every transition is a self-loop,
the reachable set of each tree must be one state -- `states == initial trees` is the
proof obligation, and every self-loop is verified by executing the real call.
Hidden state outside the snapshot is hedged by a depth-2 differential (v1 then v2 vs
v2 on a pristine tree) and a repetition round.
"""
import copy
import json
import sys

from mc import impl, lattice, runner
from mc.checks.c01 import metaschema_valid
from mc.gen import atoms as A
from mc.gen import elements as E
from mc.gen import values as VAL

from statham.serializers import serialize_json, serialize_python

PROP = "C08"
LEVEL = "model_checking"
RULE = (
    "explicit-state exploration of validate(v) histories: initial states = every DSL-built tree of the element family + the "
    "parser image of the schema lattice (depth <= 2, wrappers of depth <= 1); transitions = one real call per value of the "
    "alphabet (accepted and rejected); each successor's full snapshot (all attributes incl. private ones, aliasing, module "
    "registries) must equal its predecessor's, the input must be unchanged, repr / JSON / Python serializations unchanged, "
    "verdict+result equal on repetition and after any other call (depth-2 pairs); non-trivial = trees with both an accepted "
    "and a rejected call"
)
ASSUMPTIONS = ["state outside vars() of elements/properties/classes and the format registry is only caught by the depth-2/ repetition differential"]


def registries():
    from statham.schema.validation.format import format_checker

    return tuple(sorted(format_checker._callable_register)) if hasattr(format_checker, "_callable_register") else ()


def observe(tree, full=True):
    trees = tree if isinstance(tree, tuple) else (tree,)
    snap = (tuple(impl.snapshot(t) for t in trees), registries())
    if not full:
        return (snap,)
    try:
        js = json.dumps(runner.jsonable(serialize_json(*trees)), sort_keys=True)
    except Exception as exc:
        js = "EXC " + type(exc).__name__
    try:
        py = serialize_python(*trees)
    except Exception as exc:
        py = "EXC " + type(exc).__name__
    return snap, repr(trees), js, py


def result_probes():
    from statham.schema.elements import AnyOf, Array, Element, Integer, String
    from statham.schema.property import Property

    named = lambda: Element(properties={"a": Property(Element()), "b_": Property(Element(), source="b"), "k": Property(Element())})
    return [
        ("Element(properties a,b,k)", named()),
        ("Element(properties a:int, required zz)", Element(properties={"a": Property(Integer()), "x": Property(String())}, required=["zz"])),
        ("Element(people: Array(Element(properties)))", Element(properties={"people": Property(Array(named())), "a": Property(named())}, additionalProperties=False)),
        ("Array(AnyOf(Element(properties a:str), Element(properties)))", Array(AnyOf(Element(properties={"a": Property(String())}), named()))),
    ]


def explore_tree(st, label, factory, values, pairs):
    tree = factory()
    target = tree[0] if isinstance(tree, tuple) else tree
    obs0 = observe(tree)
    st.add("states")
    base = {}
    kinds = set()

    def step(el, n, v, hist):
        c = copy.deepcopy(v)
        kind, res = impl.do_call(el, c, copy_value=False)
        st.add("evaluations")
        st.add("transitions")
        st.add("traces")
        if not impl.strict_eq(c, v):
            st.violation("input-mutated", "%s: validating %r changed the input to %r" % (label, v, c), {"tree": label, "history": hist, "value": v, "after": c})
        return kind, (impl.canon_result(res) if kind == impl.ACCEPT else type(res).__name__)

    for n, v in enumerate(values):
        kind, canon = step(target, n, v, [v])
        kinds.add(kind)
        base[n] = (kind, canon)
        st.outcome(kind)
        obs = observe(tree, full=False)
        if obs[0] != obs0[0]:
            obs = observe(tree)
            which = [name for name, a, b in zip(("snapshot", "repr", "json", "python"), obs0, obs) if a != b]
            st.violation("tree-changed:" + "+".join(which), "%s: after validating %r the tree's %s changed" % (label, v, "/".join(which)), {"tree": label, "history": [v], "changed": which, "before": [str(x)[:400] for x in obs0[1:]], "after": [str(x)[:400] for x in obs[1:]]})
            # one violation per tree is enough; continuing on a tree that changes under every call can blow up
            # (e.g. an element that nests itself one level deeper per validation)
            return
    # results of earlier validations are values too (chained validation): feed them back, alone and nested
    fed = 0
    for n, v in enumerate(values):
        if base[n][0] != impl.ACCEPT or not isinstance(v, (dict, list)) or fed >= (2 if _TIER[0] == 'quick' else 8):
            continue
        fed += 1
        for pname, probe in [("same-element", target)] + (result_probes() if _TIER[0] != "quick" else result_probes()[:2]):
            for wname, wrap in (("bare", lambda r: r), ("in-member", lambda r: {"people": [r], "a": r})):
                _, r = impl.do_call(target, copy.deepcopy(v), copy_value=False)
                before = impl.canon_result(r)
                arg = wrap(r)
                k1, r1 = impl.do_call(probe, arg, copy_value=False)
                st.add("evaluations")
                st.add("transitions")
                after = impl.canon_result(r)
                if after != before:
                    st.violation("input-mutated:result-as-input", "%s: the result of validating %r, passed on (%s) to %s, was changed from %s to %s" % (label, v, wname, pname, str(before)[:200], str(after)[:200]), {"tree": label, "value": v, "probe": pname, "wrap": wname})
                    continue
                k2, r2 = impl.do_call(probe, arg, copy_value=False)
                c1 = impl.canon_result(r1) if k1 == impl.ACCEPT else type(r1).__name__
                c2 = impl.canon_result(r2) if k2 == impl.ACCEPT else type(r2).__name__
                if (k1, c1) != (k2, c2):
                    st.violation("not-repeatable:result-as-input", "%s: the result of validating %r passed on (%s) to %s gives %s, then %s" % (label, v, wname, pname, k1, k2), {"tree": label, "value": v, "probe": pname, "wrap": wname})
    # repetition round: history = all values, then each again
    for n, v in enumerate(values):
        kind, canon = step(target, n, v, ["<all values>", v])
        if (kind, canon) != base[n]:
            st.violation("not-repeatable", "%s: %r gives %s first and %s after other calls" % (label, v, base[n][0], kind), {"tree": label, "history": ["<all values in order>", v], "first": str(base[n])[:300], "later": str((kind, canon))[:300]})
    obs = observe(tree)
    if obs != obs0:
        which = [name for name, a, b in zip(("snapshot", "repr", "json", "python"), obs0, obs) if a != b]
        st.violation("tree-changed:" + "+".join(which), "%s: after the call history the tree's %s changed" % (label, "/".join(which)), {"tree": label, "history": "<all values twice>", "changed": which, "before": [str(x)[:400] for x in obs0[1:]], "after": [str(x)[:400] for x in obs[1:]]})
    fresh = factory()
    try:
        same = (fresh == tree) if not isinstance(tree, tuple) else all(a == b for a, b in zip(fresh, tree))
    except Exception:
        same = False
    if not same:
        st.violation("not-equal-to-fresh", "%s: after the calls the tree no longer equals a freshly built copy" % label, {"tree": label})
    # depth-2 differential on fresh trees
    if pairs:
        for i1 in pairs:
            v1 = values[i1]
            t2 = factory()
            tgt = t2[0] if isinstance(t2, tuple) else t2
            impl.do_call(tgt, v1)
            st.add("transitions")
            for n2 in pairs:
                v2 = values[n2]
                kind, res = impl.do_call(tgt, v2)
                st.add("evaluations")
                st.add("transitions")
                if True:
                    got = (kind, impl.canon_result(res) if kind == impl.ACCEPT else type(res).__name__)
                    if got != base[n2]:
                        st.violation("history-dependent", "%s: %r after %r gives %s, alone %s" % (label, v2, v1, kind, base[n2][0]), {"tree": label, "history": [v1, v2]})
    if impl.ACCEPT in kinds and impl.REJECT in kinds:
        st.add("nontrivial")


def parsed_factory(schema):
    def f():
        kind, el = impl.do_parse(schema)
        if kind != impl.ELEMENT:
            raise RuntimeError("unparseable")
        return el

    return f


def plan(tier, seed):
    trees = E.all_trees(2 if tier == "quick" else 3)
    n = len(trees)
    chunk = 60
    items = [("dsl", lo, min(n, lo + chunk)) for lo in range(0, n, chunk)]
    items += [("lat", ("d1",))] + [("lat", ("d2", i)) for i in range(A.N)] + [("lat", ("wrap1", w)) for w in A.WRAPPERS] + [("lat", ("objcore", t, r)) for t in (0, 1) for r in range(5)]
    if tier == "thorough":
        items += [("lat", ("d3g", "object", i)) for i in A.GROUPS["object"]]
        items += [("lat", ("wrap2", w, i)) for w in ("properties.a", "items", "anyOf0", "additionalProperties") for i in range(A.N)]
    return {"items": items, "meta": {"dsl_trees": n, "values_dsl": len(VAL.V) + len(VAL.V_OBJ), "values_lattice": len(VAL.V), "history_depth": 2, "tier": tier, "exhaustive": True}}


_CACHE = {}
PAIR_IDX_DSL = list(range(0, len(VAL.V), 4)) + list(range(len(VAL.V), len(VAL.V) + len(VAL.V_OBJ), 3))


def work(item):
    st = runner.Stats()
    if item[0] == "dsl":
        mk = 2 if (item[2] - item[1]) and _TIER[0] == "quick" else 3
        trees = _CACHE.setdefault(mk, E.all_trees(mk))
        values = VAL.V + VAL.V_OBJ
        for tn, (label, factory) in enumerate(trees[item[1]:item[2]]):
            pairs = PAIR_IDX_DSL if not label.split("(")[0] in E.CLASSES else (PAIR_IDX_DSL[::2] if _TIER[0] == "thorough" else PAIR_IDX_DSL[::3])
            if _TIER[0] == "quick" and "(" in label and label.count("=") >= 2 and (item[1] + tn) % 3 != _SEED[0] % 3:
                pairs = pairs[::4]  # two-keyword simple elements: the depth-2 differential on a seed-rotated third, a quarter of the pairs elsewhere
            explore_tree(st, label, factory, values, pairs)
            if st.c["states"] % 41 == 1:
                st.sample({"tree": label, "calls": len(values)})
        # parent observed while only the child is used
        if item[1] == 0:
            explore_tree(st, "parent-of-used-child", lambda: E._cls_inherit_parent_of_used_child()[::-1] and _pc(), VAL.V + VAL.V_OBJ, [])
    else:
        for sid, schema, values, ntrans in lattice.expand(item[1]):
            if schema is None or not metaschema_valid(schema):
                continue
            f = parsed_factory(schema)
            try:
                f()
            except RuntimeError:
                continue
            values = list(values)
            nv = len(values)
            step = 4 if item[1][0] in ("d1", "objcore") else (7 if _TIER[0] == "thorough" else 16)
            explore_tree(st, json.dumps(schema, sort_keys=True), f, values, list(range(0, nv, step)))
            if st.c["states"] % 1499 == 1:
                st.sample({"schema": schema, "calls": len(values)})
    return st


def _pc():
    """(child, parent): calls go to the child, both are observed."""
    par, chi = E._cls_inherit_parent_of_used_child()
    return (chi, par)


_TIER = ["quick"]
_SEED = [0]


def replay(case):
    st = runner.Stats()
    label = case["tree"]
    fac = None
    for l, f in E.all_trees(3):
        if l == label:
            fac = f
    if label == "parent-of-used-child":
        fac = _pc
    if fac is None:
        try:
            fac = parsed_factory(json.loads(label))
        except Exception:
            return []
    explore_tree(st, label, fac, VAL.V + VAL.V_OBJ, PAIR_IDX_DSL)
    return [v for lst in st.violations.values() for _, v in lst]


def _main():
    import os

    for i, a in enumerate(sys.argv):
        if a == "--tier" and i + 1 < len(sys.argv):
            _TIER[0] = sys.argv[i + 1]
    if os.environ.get("VERIF_TIER") and "--tier" not in sys.argv:
        _TIER[0] = os.environ["VERIF_TIER"]
    try:
        _SEED[0] = int(os.environ.get("VERIF_SEED", "0") or 0)
    except ValueError:
        pass
    return runner.main(sys.modules[__name__])


if __name__ == "__main__":
    sys.exit(_main())
