"""C15 — a subclass means parent + additions; the parent is never affected.

(A) E1 over parent/child declarations: parent keywords x child overrides x property moves x chain length;
    oracle: child == flat class (verdict+result vectors, JSON serialization), isinstance, parent observation unchanged.
(B) E2 over histories {define another child, validate parent, validate child, reconfigure child} on selected
    declarations; invariant in every state: parent's snapshot / verdict vector / serializations identical to the
    initial ones, child agrees with the flat class carrying the same reconfiguration.
"""
import copy
import itertools
import json
import sys

from mc import history, impl, runner

from statham.schema.constants import NotPassed
from statham.schema.elements import AnyOf, Array, Boolean, Element, Integer, Null, Object, String
from statham.schema.elements.meta import ObjectClassDict, ObjectMeta
from statham.schema.property import Property
from statham.serializers import serialize_json, serialize_python

PROP = "C15"
LEVEL = "model_checking"
RULE = (
    "(A) exhaustive enumeration of parent/child declarations (parent class-keyword subsets x child override subsets, sizes "
    "<=1x<=2 and <=2x<=1 over an 11-keyword menu, x 5 property moves x chain length 2, 3 and 3-with-an-override-in-the-middle-class); every declaration is executed and the "
    "child is compared with the single flat class (verdict+result vector over 30 probes, serialize_json), instances checked "
    "with isinstance, the parent's full observation compared before/after definition and use of the child. (B) explicit-state "
    "BFS to depth 3 over {define grandchild, validate parent, validate child, reconfigure child} with the parent's observation "
    "as a state invariant. Non-trivial = declarations whose child verdict vector differs from the parent's"
)
ASSUMPTIONS = [
    "in-place mutation of a keyword value the child inherited by reference (Child.patternProperties[k] = ...) is outside the operation alphabet",
    "docstring-derived descriptions are not part of the declaration alphabet",
]

NP = NotPassed()
PROBES = [
    NP, None, 1, "a", [], {}, {"a": 1}, {"a": True}, {"a": 1, "c": 1}, {"a": 1, "k": False}, {"a": "s"}, {"a": 1, "b": "s"}, {"a": 1, "b": 2}, {"b": "s"}, {"a": 1, "c": True}, {"a": 1, "c": 1}, {"a": "s", "c": True},
    {"a": 1, "k": 0}, {"a": 1, "k": 0, "c": False}, {"a": 1, "z1": 5}, {"a": 1, "z1": "s"}, {"a": 1, "zz": None}, {"a": 1, "b": "s", "c": True, "d": 4},
    {"a": 1, "class": 3}, {"a": 1, "class": "x"}, {"a": 1, "ab": 1}, {"a": 1, "b": "s", "k": 1, "z1": 2, "q": 3}, {"a": True}, {"k": 0}, {"a": 1, "d": 1}, {"a": 1, "d": 1, "e": 2},
    {"a": 2, "b": "dd"}, {"a": 1, "b": None}, {"a": 1, "x y": "s"}, {"a": 1, "x y": 5}, {"a": 1, "x_y": 5},
]

KWMENU = {
    "default": [{"a": 1}, {"a": "s", "c": True}, {"a": True}],
    "const": [{"a": 1}, {"a": True}],
    "enum": [[{"a": 1}, {"a": 1, "c": True}, {"a": 1, "k": 0}], [{"a": True}, {"a": 1, "c": 1}, {"a": 1, "k": False}]],
    "required": [["k"], []],
    "minProperties": [2],
    "maxProperties": [2],
    "patternProperties": [lambda: {"^z": Integer()}, lambda: {"^z": String(), "1$": Element()}],
    "additionalProperties": [False, lambda: Integer(), True],
    "propertyNames": [lambda: String(maxLength=1)],
    "dependencies": [{"a": ["b"]}, lambda: {"d": Element(required=["e"])}],
    "description": ["text"],
}
KWLIST = sorted(KWMENU)

PARENT_PROPS = [("a", "Integer()", True, None), ("b", "String(default='d')", False, None), ("m", "Detail", False, None), ("n1", "Integer(default=1)", False, None), ("x_y", "String(default='d')", False, "x y")]
MOVES = {
    "none": [],
    "add": [("c", "Boolean()", True, None)],
    "override": [("a", "String()", False, None)],
    "add_renamed": [("class_", "Integer(default=1)", False, "class")],
    "override_required": [("b", "String()", True, None)],
    # the parent's model-valued property is replaced: the model it referred to is reachable through the parent only
    "override_model": [("m", "Null()", False, None)],
    # overrides that are structurally equal to what they replace, yet not the same thing: a twin model under another name,
    # a default of another numeric type
    "override_twin": [("m", "DetailTwin", False, None), ("b", "String(default='d')", False, None), ("n1", "Integer(default=1.0)", False, None)],
}
ELEMS = {
    "Integer()": lambda: Integer(), "String()": lambda: String(), "String(default='d')": lambda: String(default="d"),
    "Boolean()": lambda: Boolean(), "Integer(default=1)": lambda: Integer(default=1), "Null()": lambda: Null(),
    "Detail": lambda: Object.inline("Detail", properties={"n": Property(Integer(), required=True)}),
    "DetailTwin": lambda: Object.inline("DetailTwin", properties={"n": Property(Integer(), required=True)}),
    "Integer(default=1.0)": lambda: Integer(default=1.0),
}


def kw_choices(max_size, full=False):
    out = [()]
    for r in range(1, max_size + 1):
        for combo in itertools.combinations(KWLIST, r):
            for idx in itertools.product(*[range(len(KWMENU[k])) for k in combo]):
                if r >= 2 and not full and sum(1 for i in idx if i) > 1:
                    continue  # quick tier: at most one keyword of a pair takes a non-first value
                out.append(tuple(zip(combo, idx)))
    return out


def kwargs_of(choice):
    out = {}
    for k, i in choice:
        v = KWMENU[k][i]
        out[k] = v() if callable(v) else copy.deepcopy(v)
    return out


def make_class(name, bases, props, choice):
    cd = ObjectClassDict()
    for (n, e, req, src) in props:
        cd[n] = Property(ELEMS[e](), required=req, source=src)
    return ObjectMeta(name, bases, cd, **kwargs_of(choice))


def merged_props(*layers):
    out = {}
    for layer in layers:
        for p in layer:
            out[p[0]] = p
    return list(out.values())


def merged_choice(*choices):
    out = {}
    for ch in choices:
        for k, i in ch:
            out[k] = i
    return tuple(sorted(out.items()))


def vector(obj):
    out = []
    for v in PROBES:
        kind, res = impl.do_call(obj, v)
        out.append((kind, impl.canon_result(res) if kind == impl.ACCEPT else None))
    return out


def observe(cls):
    try:
        js = json.dumps(runner.jsonable(serialize_json(cls)), sort_keys=True)
    except Exception as exc:
        js = "EXC " + repr(exc)
    try:
        py = serialize_python(cls)
    except Exception as exc:
        py = "EXC " + repr(exc)
    return impl.snapshot(cls), vector(cls), js, py


def diff_obs(a, b):
    return [n for n, x, y in zip(("snapshot", "verdicts", "json", "python"), a, b) if x != y]


def vector_raw(obj):
    out, raw = [], []
    for v in PROBES:
        kind, res = impl.do_call(obj, v)
        out.append((kind, impl.canon_result(res) if kind == impl.ACCEPT else None))
        raw.append((kind, res))
    return out, raw


def check_pair(st, pchoice, cchoice, rank, only=None):
    """One fresh parent; every (move, chain) child is defined on it and used; the parent is observed before and after."""
    try:
        parent = make_class("Par", (Object,), PARENT_PROPS, pchoice)
    except Exception as exc:
        st.notes["parent-declaration-refused:" + type(exc).__name__] += 1
        return
    before = observe(parent)
    st.add("states")
    for move in MOVES:
        for chain in (2, 3, 4):
            if only and only != (move, chain):
                continue
            if _TIER[0] == "quick" and pchoice and ((move in ("override_twin", "override_model") and chain == 4) or (chain == 3 and move not in ("none", "add", "override_model"))):
                continue
            label = {"parent_kw": [(k, i) for k, i in pchoice], "child_kw": [(k, i) for k, i in cchoice], "move": move, "chain": chain}
            layers = [PARENT_PROPS]
            base = parent
            if chain >= 3:
                # chain 4 = three levels where the MIDDLE class overrides an inherited property the child does not re-declare
                mid_props = [("m", "Null()", False, None)] + ([("a", "String()", False, None), ("b", "String()", True, None)] if chain == 4 else [])
                base = make_class("Mid", (parent,), mid_props, ())
                layers.append(mid_props)
            child = make_class("Chi", (base,), MOVES[move], cchoice)
            layers.append(MOVES[move])
            st.add("states")
            st.add("transitions", 1 + len(PROBES))
            flat = make_class("Chi", (Object,), merged_props(*layers), merged_choice(pchoice, cchoice))
            (cv, craw), fv = vector_raw(child), vector(flat)
            st.add("evaluations", 2 * len(PROBES))
            st.add("traces")
            if [k for k, _ in cv] != [k for k, _ in before[1]]:
                st.add("nontrivial")
            ok = True
            if cv != fv:
                ok = False
                diffs = [(repr(PROBES[i]), cv[i][0], fv[i][0]) for i in range(len(PROBES)) if cv[i] != fv[i]]
                st.violation("child-differs-from-flat:validation", "%s: child and flat class disagree on %s" % (label, diffs[:3]), {**label, "diffs": diffs[:6]}, rank=rank)
            try:
                cj, fj = serialize_json(child), serialize_json(flat)
                if json.dumps(runner.jsonable(cj), sort_keys=True) != json.dumps(runner.jsonable(fj), sort_keys=True):
                    ok = False
                    st.violation("child-differs-from-flat:json", "%s: child serializes to %s, flat class to %s" % (label, json.dumps(runner.jsonable(cj), sort_keys=True)[:300], json.dumps(runner.jsonable(fj), sort_keys=True)[:300]), {**label, "child_json": cj, "flat_json": fj}, rank=rank)
            except Exception as exc:
                ok = False
                st.violation("serialize-raised:" + type(exc).__name__, "%s: %r" % (label, exc), label, rank=rank)
            # Python serialization: the module for the child must execute, define an equal child and keep it a subclass of an
            # equal parent (checked for a rotating subset of declarations: exec is the expensive part)
            if (hash((move, chain, len(pchoice), len(cchoice))) + rank) % (5 if _TIER[0] == "quick" else 2) == 0 or not pchoice:
                try:
                    text = serialize_python(child)
                    gns = {"__builtins__": __builtins__}
                    exec(compile(text, "<generated>", "exec"), gns)
                    gchild, gparent = gns.get("Chi"), gns.get("Par")
                    if not (gchild == child) or gparent is None or not (gparent == parent) or not issubclass(gchild, gparent):
                        ok = False
                        st.violation("child-differs-from-flat:python", "%s: executing serialize_python(child) does not give an equal child below an equal parent" % (label,), {**label, "module": text[:1200]}, rank=rank)
                    elif json.dumps(runner.jsonable(serialize_json(gchild)), sort_keys=True) != json.dumps(runner.jsonable(cj), sort_keys=True):
                        # equality of classes ignores names and the numeric type of literals; the documents do not
                        ok = False
                        st.violation("child-differs-from-flat:python-json", "%s: the child obtained from serialize_python serializes to %s, the original child to %s" % (label, json.dumps(runner.jsonable(serialize_json(gchild)), sort_keys=True)[:300], json.dumps(runner.jsonable(cj), sort_keys=True)[:300]), {**label, "module": text[:1200]}, rank=rank)
                    else:
                        gv = vector(gchild)
                        if [k for k, _ in gv] != [k for k, _ in fv]:
                            ok = False
                            st.violation("child-differs-from-flat:python-behaviour", "%s: the generated child validates differently from the flat class" % (label,), {**label, "module": text[:1200]}, rank=rank)
                except Exception as exc:
                    ok = False
                    st.violation("child-python-module-broken:%s" % type(exc).__name__, "%s: %r" % (label, exc), label, rank=rank)
            used_as_parent = False
            for v, (kind, res) in zip(PROBES, craw):
                if kind == impl.ACCEPT and isinstance(type(res), ObjectMeta):
                    if isinstance(res, parent) and not used_as_parent:
                        used_as_parent = True
                        # ... and usable wherever an instance of the parent is expected (first accepted instance of each child)
                        for plabel, pel, wrapv, unwrap in (("parent", parent, res, lambda r: r), ("Array(parent)", Array(parent), [res], lambda r: r[0]), ("AnyOf(Null, parent)", AnyOf(Null(), parent), res, lambda r: r)):
                            pk, pr = impl.do_call(pel, wrapv, copy_value=False)
                            if pk != impl.ACCEPT or unwrap(pr) is not res:
                                ok = False
                                st.violation("child-instance-refused-by-parent", "%s: a child instance passed to %s gives %s" % (label, plabel, pk), {**label, "value": v, "where": plabel}, rank=rank)
                                break
                    if not isinstance(res, parent) or not isinstance(res, base):
                        ok = False
                        st.violation("instance-not-of-parent", "%s: child instance %r is not an instance of the parent" % (label, res), {**label, "value": v}, rank=rank)
            st.outcome("child==flat" if ok else "child!=flat")
    after = observe(parent)
    d = diff_obs(before, after)
    if d:
        culprit = None
        if only is None:
            for move in MOVES:
                for chain in (2, 3, 4):
                    sub = runner.Stats()
                    check_pair(sub, pchoice, cchoice, rank, only=(move, chain))
                    if any(k.startswith("parent-changed") for k in sub.violations):
                        culprit = culprit or {"move": move, "chain": chain}
        label = {"parent_kw": [(k, i) for k, i in pchoice], "child_kw": [(k, i) for k, i in cchoice], **(culprit or {"move": only[0] if only else "all", "chain": only[1] if only else 0})}
        st.violation("parent-changed:" + "+".join(d), "%s: defining/using the child changed the parent's %s" % (label, "/".join(d)), {**label, "changed": d}, rank=rank)
        st.outcome("parent-changed")


# --------------------------------------------------------------------------- (B) histories
def history_ops():
    def vp(v):
        return history.Op("validate parent(%r)" % (v,), lambda live: impl.do_call(live["parent"], v))

    def vc(v):
        return history.Op("validate child(%r)" % (v,), lambda live: impl.do_call(live["child"], v))

    def setkw(k, label, f):
        def apply(live):
            setattr(live["child"], k, f())

        def model(ref):
            ref["kw"][k] = f

        return history.Op("child.%s=%s" % (k, label), apply, None, model)

    def setprop(name, spec):
        def apply(live):
            live["child"].properties[name] = Property(ELEMS[spec[0]](), required=spec[1], source=spec[2])

        def model(ref):
            ref["props"][name] = (name,) + spec

        return history.Op("child.properties[%r]=Property(%s, required=%s)" % (name, spec[0], spec[1]), apply, None, model)

    def delprop(name):
        def apply(live):
            del live["child"].properties[name]

        def model(ref):
            del ref["props"][name]

        return history.Op("del child.properties[%r]" % name, apply, lambda live: name in live["child"].properties, model)

    def grandchild(live):
        class Grand(live["child"], minProperties=3):
            g = Property(Integer(), required=True)

        live["grand"] = Grand
        impl.do_call(Grand, {"a": 1, "c": True, "g": 1, "k": 0})

    def sibling(live):
        class Sib(live["parent"], additionalProperties=False):
            s = Property(String(), required=True)

        live["sib"] = Sib
        impl.do_call(Sib, {"a": 1, "s": "x", "k": 0})

    return [
        vp({"a": 1, "k": 0}), vp({"a": "s"}), vc({"a": 1, "k": 0, "c": True}), vc({"a": 1}), vc(NP),
        setkw("minProperties", "3", lambda: 3), setkw("required", "['q']", lambda: ["q"]), setkw("additionalProperties", "False", lambda: False),
        setkw("patternProperties", "{'^z': Integer()}", lambda: {"^z": Integer()}), setkw("default", "{'a': 1}", lambda: {"a": 1}),
        setprop("a", ("String()", True, None)), setprop("n", ("Integer()", True, None)), delprop("a"), delprop("b"), delprop("c"),
        history.Op("define grandchild + use it", grandchild), history.Op("define sibling + use it", sibling),
    ]


HIST_DECLS = [
    ((("required", 0),), (), "add"),
    ((("required", 0), ("minProperties", 0)), (("maxProperties", 0),), "override"),
    ((("patternProperties", 0), ("additionalProperties", 1)), (("additionalProperties", 0),), "add"),
    ((("default", 0), ("dependencies", 0)), (("required", 1),), "override_required"),
    ((), (("patternProperties", 1),), "add_renamed"),
]


def run_history(st, decl_idx, first, depth):
    pchoice, cchoice, move = HIST_DECLS[decl_idx]
    ops = history_ops()

    def build():
        parent = make_class("Par", (Object,), PARENT_PROPS, pchoice)
        child = make_class("Chi", (parent,), MOVES[move], cchoice)
        live = {"parent": parent, "child": child}
        mp = merged_props(PARENT_PROPS, MOVES[move])
        ref = {"kw": {k: (lambda v=v: (v() if callable(v) else copy.deepcopy(v))) for k, v in ((k, KWMENU[k][i]) for k, i in merged_choice(pchoice, cchoice))}, "props": {p[0]: p for p in mp}}
        return live, ref

    live0, _ = build()
    parent0 = observe(live0["parent"])

    def key(live, ref):
        return (impl.snapshot(live["parent"]), impl.snapshot(live["child"]), impl.snapshot(live.get("grand")), impl.snapshot(live.get("sib")))

    def check(live, ref, hist):
        names = [ops[i].name for i in hist]
        st.add("traces")
        st.add("evaluations", 2 * len(PROBES))
        snap = impl.snapshot(live["parent"])
        now = (snap, vector(live["parent"]), parent0[2], parent0[3]) if snap == parent0[0] and len(hist) < depth else observe(live["parent"])
        d = diff_obs(parent0, now)
        if d:
            st.violation("parent-changed:" + "+".join(d), "decl %d after %s: the parent's %s changed" % (decl_idx, names, "/".join(d)), {"declaration": decl_idx, "history": names, "changed": d}, rank=len(hist))
        cd = ObjectClassDict()
        for (n, e, req, src) in ref["props"].values():
            cd[n] = Property(ELEMS[e](), required=req, source=src)
        flat = ObjectMeta("Chi", (Object,), cd, **{k: f() for k, f in ref["kw"].items()})
        cv, fv = vector(live["child"]), vector(flat)
        if cv != fv:
            diffs = [(repr(PROBES[i]), cv[i][0], fv[i][0]) for i in range(len(PROBES)) if cv[i] != fv[i]]
            st.violation("child-differs-from-flat:history", "decl %d after %s: child vs flat class %s" % (decl_idx, names, diffs[:3]), {"declaration": decl_idx, "history": names, "diffs": diffs[:6]}, rank=len(hist))
        st.outcome("hist-len%d" % len(hist))

    if not ops[first].enabled(live0):
        return
    states, transitions, maxd, capped = history.bfs(build, ops, key, check, depth, prefix=(first,))
    st.add("states", states)
    st.add("transitions", transitions)
    if first == 0:
        st.sample({"history_declaration": decl_idx, "ops": [o.name for o in ops], "depth": depth, "states_under_first_op": states})


_TIER = ["quick"]


def plan(tier, seed):
    _TIER[0] = tier  # workers are forked after plan() and inherit it
    big = 2
    items = []
    p1, p2 = kw_choices(1), kw_choices(big, full=(tier == "thorough"))
    decls = []
    for pc in p1:
        for cc in p2:
            decls.append((pc, cc))
    for pc in p2:
        if len(pc) < 2:
            continue
        for cc in p1:
            decls.append((pc, cc))
    if tier == "thorough":
        seen = set(decls)
        for pc in p2:
            for cc in p2:
                if (pc, cc) not in seen and (hash((pc, cc, 7)) % 4 == seed % 4):
                    decls.append((pc, cc))
    chunk = 40
    for lo in range(0, len(decls), chunk):
        items.append(("decl", decls[lo:lo + chunk]))
    depth = 3 if tier == "quick" else 4
    nops = len(history_ops())
    hd = range(len(HIST_DECLS)) if tier == "thorough" else range(3)
    items += [("hist", d, f, depth) for d in hd for f in range(nops)]
    return {"items": items, "meta": {"declarations": len(decls) * len(MOVES) * 2, "keyword_menu": KWLIST, "moves": sorted(MOVES), "chains": [2, 3, "3 with override in the middle class"], "history_depth": depth, "history_ops": nops, "probes": len(PROBES), "exhaustive": tier == "quick" or True}}


def work(item):
    st = runner.Stats()
    if item[0] == "decl":
        for n, (pc, cc) in enumerate(item[1]):
            check_pair(st, pc, cc, rank=len(pc) + len(cc))
            if n == 0:
                st.sample({"parent_kw": pc, "child_kw": cc, "moves": sorted(MOVES), "chains": [2, 3, "3 with override in the middle class"]})
    else:
        run_history(st, item[1], item[2], item[3])
    return st


def replay(case):
    st = runner.Stats()
    if "move" in case:
        only = (case["move"], case["chain"]) if case.get("move") in MOVES else None
        check_pair(st, tuple(tuple(x) for x in case["parent_kw"]), tuple(tuple(x) for x in case["child_kw"]), 0, only=only)
    else:
        for f in range(len(history_ops())):
            run_history(st, case["declaration"], f, len(case["history"]))
    return [v for lst in st.violations.values() for _, v in lst]


if __name__ == "__main__":
    sys.exit(runner.main(sys.modules[__name__]))
