"""C17 — equal elements are interchangeable.

E1 over ordered pairs of a pool of elements built so that most pairs differ in exactly one keyword, one literal
(1 / true / 1.0, [] / not-passed), one property attribute or only in the element class.  Oracle: reflexive, symmetric,
independently rebuilt copies equal; a == b implies equal verdict vectors over the value alphabet and equal JSON
serializations (compared in the JSON data model, titles normalised).
"""
import copy
import json
import sys

from mc import impl, runner
from mc.gen import atoms as A
from mc.gen import elements as E
from mc.gen import values as VAL

from statham.schema.constants import NotPassed
from statham.schema.elements import AllOf, AnyOf, Array, Boolean, Element, Integer, Not, Nothing, Null, Number, Object, OneOf, String
from statham.schema.elements.meta import ObjectClassDict, ObjectMeta
from statham.schema.property import Property
from statham.serializers import serialize_json

PROP = "C17"
LEVEL = "model_checking"
RULE = (
    "exhaustive enumeration of all ordered pairs of an element pool (DSL family with <=1 keyword, one-literal / one-attribute / "
    "element-class variants, model classes differing in one property attribute, the parser image of every <=1-atom lattice schema); "
    "== is evaluated for every ordered pair; every equal pair is checked for identical verdict vectors over the value alphabet and "
    "identical JSON serialization; every element is compared with an independently rebuilt copy; non-trivial = pairs of distinct "
    "pool entries that compare equal, plus pairs differing in exactly one literal"
)
ASSUMPTIONS = ["serializations are compared in the JSON data model (1 == 1.0, true != 1) with class titles normalised (the weaker reading)"]

NP = NotPassed()


def literal_variants():
    out = []
    lits = [1, True, 1.0, 0, False, 0.0, None, "", "1", [], [1], [True], [1.0], {}, {"a": 1}, {"a": True}, {"a": 1.0}, [[1]], [[True]], [{"a": [1]}], [{"a": [True]}]]
    for kw in ("const", "default"):
        for l in lits:
            out.append(("Element(%s=%r)" % (kw, l), lambda kw=kw, l=l: Element(**{kw: copy.deepcopy(l)})))
    for l in ([1], [True], [1.0], [1, "a"], ["a", 1], [[1]], [[True]], [], [None], [0, False]):
        out.append(("Element(enum=%r)" % (l,), lambda l=l: Element(enum=copy.deepcopy(l))))
    for kw, vals in {"minimum": [1, 1.0, True, 2], "maxLength": [1, True, 2], "uniqueItems": [True, False, 1], "additionalItems": [True, False, 1], "additionalProperties": [True, False, 1],
                     "required": [[], ["a"], ["a", "b"], ["b", "a"]], "minItems": [0, False, 1], "multipleOf": [1, 1.0, 2, 2.0], "pattern": ["a", "^a"], "format": ["uuid", "date-time"]}.items():
        for v in vals:
            out.append(("Element(%s=%r)" % (kw, v), lambda kw=kw, v=v: Element(**{kw: copy.deepcopy(v)})))
    for cls in (Element, Integer, Number):
        for kw, v in (("minimum", 1), ("const", 1), ("default", 1)):
            out.append(("%s(%s=%r)" % (cls.__name__, kw, v), lambda cls=cls, kw=kw, v=v: cls(**{kw: v})))
    for cls in (Element, String, Integer, Number, Boolean, Null, Nothing):
        out.append(("%s()" % cls.__name__, lambda cls=cls: cls()))
    out.append(("Array(Element())", lambda: Array(Element())))
    out.append(("Array(Integer())", lambda: Array(Integer())))
    out.append(("Array([Integer()])", lambda: Array([Integer()])))
    out.append(("Element(items=Integer())", lambda: Element(items=Integer())))
    out.append(("Element(items=[Integer()])", lambda: Element(items=[Integer()])))
    for comp in (AnyOf, OneOf, AllOf):
        out.append(("%s(Integer(), String())" % comp.__name__, lambda comp=comp: comp(Integer(), String())))
        out.append(("%s(String(), Integer())" % comp.__name__, lambda comp=comp: comp(String(), Integer())))
        out.append(("%s(Integer())" % comp.__name__, lambda comp=comp: comp(Integer())))
        out.append(("%s(Element(const=1), Element(const=True))" % comp.__name__, lambda comp=comp: comp(Element(const=1), Element(const=True))))
        out.append(("%s(Element(const=True), Element(const=1))" % comp.__name__, lambda comp=comp: comp(Element(const=True), Element(const=1))))
    out.append(("Not(Integer())", lambda: Not(Integer())))
    out.append(("Not(Element(const=1))", lambda: Not(Element(const=1))))
    out.append(("Not(Element(const=True))", lambda: Not(Element(const=True))))
    return out


def property_variants():
    out = []

    def cls(name, props, **kw):
        def f():
            cd = ObjectClassDict()
            for n, (el, req, src) in props.items():
                cd[n] = Property(el(), required=req, source=src)
            return ObjectMeta(name, (Object,), cd, **{k: copy.deepcopy(v) for k, v in kw.items()})

        return f

    base = {"a": (lambda: Integer(), False, None)}
    out.append(("class M{a:int}", cls("M", base)))
    out.append(("class M{a:int required}", cls("M", {"a": (lambda: Integer(), True, None)})))
    out.append(("class M{a:int source=A}", cls("M", {"a": (lambda: Integer(), False, "A")})))
    out.append(("class M{a:str}", cls("M", {"a": (lambda: String(), False, None)})))
    out.append(("class M{b:int}", cls("M", {"b": (lambda: Integer(), False, None)})))
    out.append(("class M{a:int,b:int}", cls("M", {"a": (lambda: Integer(), False, None), "b": (lambda: Integer(), False, None)})))
    out.append(("class N{a:int}", cls("N", base)))
    out.append(("class M{a:int} addl=False", cls("M", base, additionalProperties=False)))
    out.append(("class M{a:int} required=[a]", cls("M", base, required=["a"])))
    out.append(("class M{a:const 1}", cls("M", {"a": (lambda: Element(const=1), False, None)})))
    out.append(("class M{a:const true}", cls("M", {"a": (lambda: Element(const=True), False, None)})))
    out.append(("class M{a:int} default={a:1}", cls("M", base, default={"a": 1})))
    out.append(("class M{a:int} default={a:true}", cls("M", base, default={"a": True})))
    out.append(("class M{a:int} description", cls("M", base, description="d")))
    for label, kw in (("addl=String()", {"additionalProperties": String()}), ("addl=Integer()", {"additionalProperties": Integer()}), ("addl=String(minLength=1)", {"additionalProperties": String(minLength=1)}),
                      ("propertyNames=String(maxLength=4)", {"propertyNames": String(maxLength=4)}), ("propertyNames=String(maxLength=40)", {"propertyNames": String(maxLength=40)}),
                      ("patternProperties ^x int", {"patternProperties": {"^x": Integer()}}), ("patternProperties ^x str", {"patternProperties": {"^x": String()}}),
                      ("dependencies a->Element(required b)", {"dependencies": {"a": Element(required=["b"])}}), ("dependencies a->Element(required c)", {"dependencies": {"a": Element(required=["c"])}})):
        out.append(("class M{a:int} %s" % label, cls("M", base, **kw)))
        out.append(("Array(class M{a:int} %s)" % label, (lambda kw=kw: Array(cls("M", base, **kw)()))))
    out.append(("class M{} ", cls("M", {})))
    def inherit(kind):
        def f():
            cd = ObjectClassDict()
            cd["value"] = Property(Integer())
            if kind == "plain":
                return ObjectMeta("K", (Object,), cd)
            if kind == "copy":
                return ObjectMeta("K", (Object,), cd, minProperties=1, required=["value"], description="d", patternProperties={"^x": String()})
            base = ObjectMeta("Base", (Object,), cd if kind == "child-no-props" else ObjectClassDict(), minProperties=1, required=["value"], description="d", patternProperties={"^x": String()})
            if kind == "child-no-props":
                return ObjectMeta("K", (base,), ObjectClassDict())
            return ObjectMeta("K", (base,), cd)

        return f

    for kind in ("plain", "copy", "child", "child-no-props"):
        out.append(("class K %s (inherits minProperties/required/description/patternProperties)" % kind, inherit(kind)))
    def edited(kind):
        def f():
            e = Element(properties={"a": Property(String())}, required=["z"]) if kind != "fresh" else Element(properties={"a": Property(String()), "b": Property(Integer(), required=True)}, required=["z", "y"])
            if kind != "fresh":
                impl.do_call(e, {"a": "x", "z": 1})
                impl.do_call(e, {})
                e.properties["b"] = Property(Integer(), required=True)
                e.required.append("y")
            return e

        return f

    out.append(("Element built directly (a, b required; required z, y)", edited("fresh")))
    out.append(("Element validated, then edited IN PLACE to (a, b required; required z, y)", edited("edited")))
    for req in (True, False):
        out.append(("Element(properties a: String(default) required=%s)" % req, lambda req=req: Element(properties={"a": Property(String(default="x"), required=req)})))
        out.append(("class M{a: String(default) required=%s}" % req, cls("M", {"a": (lambda: String(default="x"), req, None)})))
    out.append(("Element(properties a:int)", lambda: Element(properties={"a": Property(Integer())})))
    out.append(("Element(properties a:int required)", lambda: Element(properties={"a": Property(Integer(), required=True)})))
    out.append(("Element(properties a:int source=A)", lambda: Element(properties={"a": Property(Integer(), source="A")})))
    out.append(("Element(properties={})", lambda: Element(properties={})))
    out.append(("Array(class M{a:int})", lambda: Array(cls("M", base)())))
    out.append(("Array(class N{a:int})", lambda: Array(cls("N", base)())))
    out.append(("Array(class M{a:int required})", lambda: Array(cls("M", {"a": (lambda: Integer(), True, None)})())))
    return out


def parsed_pool():
    out = []
    for i in range(A.N):
        schema = A.schema_of((i,))
        out.append(("parse(%s)" % json.dumps(schema, sort_keys=True), lambda schema=schema: _parse(schema)))
    for n, leaf in enumerate(A.LEAVES):
        out.append(("parse(%s)" % json.dumps(leaf, sort_keys=True), lambda leaf=leaf: _parse(leaf)))
    return out


def _parse(schema):
    kind, el = impl.do_parse(schema)
    if kind != impl.ELEMENT:
        raise RuntimeError("unparseable %r" % (schema,))
    return el


_POOL = []


def pool():
    if not _POOL:
        p = []
        p += literal_variants()
        p += property_variants()
        p += E.object_classes() + E.untyped_with_properties() + E.arrays_and_compositions()
        p += E.simple_elements(1)
        p += parsed_pool()
        _POOL.extend(p)
    return _POOL


VALUES = VAL.V + VAL.V_OBJ[:24] + [NP, {"a": 1, "q": "s"}, {"a": 1, "q": 2}, {"a": 1, "longname": 1}, {"a": 1, "x1": 1}, {"a": 1, "x1": "s"}, [{"a": 1, "q": "s"}], [{"a": 1, "q": 2}], {"a": 1, "c": 1}, {"z": 1}, {"z": 1, "y": 2}, {"z": 1, "y": 2, "b": 3}, {"a": "x", "z": 1}, {"a": "x", "z": 1, "y": 0, "b": "no"}, {"value": 1}, {"x1": "s", "value": 2}]


def strip_titles(doc):
    """JSON data model canon: numbers by value, bool distinct; title annotations and definition names normalised."""
    names = {}

    def norm(node):
        if isinstance(node, bool):
            return ("b", node)
        if isinstance(node, (int, float)):
            return ("n", float(node) if abs(node) < 2 ** 53 else repr(node))
        if isinstance(node, list):
            return [norm(x) for x in node]
        if isinstance(node, dict):
            out = {}
            for k, v in node.items():
                if k == "title":
                    continue
                if k == "$ref" and isinstance(v, str):
                    out[k] = "#ref"
                    continue
                if k == "definitions" and isinstance(v, dict):
                    out[k] = sorted(json.dumps(norm(x), sort_keys=True) for x in v.values())
                    continue
                out[k] = norm(v)
            return out
        return node

    return json.dumps(norm(doc), sort_keys=True)


_OBS = {}


def observe(idx):
    if idx not in _OBS:
        label, fac = pool()[idx]
        el = fac()
        vec = []
        for v in VALUES:
            kind, res = impl.do_call(el, v)
            vec.append(kind == impl.ACCEPT)
        try:
            js = strip_titles(serialize_json(el))
        except Exception as exc:
            js = "EXC:" + type(exc).__name__
        _OBS[idx] = (el, vec, js)
    return _OBS[idx]


def threaded_equality(st, only=None, bound2=False, shard=None):
    """E3 on ==: two (three) threads compare the same shared elements at the same time; every schedule with <= 1 preemption
    at line granularity inside statham files (thorough: <= 2 at call/backward-jump granularity on the smallest case); each comparison must give its sequential answer."""
    from mc import sched

    cases = {
        "unequal-same-direction": (lambda: (String(maxLength=3), String(maxLength=5)), [(0, 1), (0, 1)], [False, False]),
        "equal-same-direction": (lambda: (Array(Integer(minimum=1)), Array(Integer(minimum=1))), [(0, 1), (0, 1)], [True, True]),
        "unequal-nested": (lambda: (Element(properties={"a": Property(String(default=[1]))}), Element(properties={"a": Property(String(default=[True]))})), [(0, 1), (0, 1), (1, 0)], [False, False, False]),
        "mixed": (lambda: (AnyOf(Integer(), String()), AnyOf(Integer(), String()), AnyOf(String(), Integer())), [(0, 1), (0, 2), (1, 2)], [True, False, False]),
    }
    for label, (mk, pairs, want) in cases.items():
        if only and label != only:
            continue

        def make_bodies():
            els = mk()
            return [(lambda i=i, j=j: bool(els[i] == els[j])) for i, j in pairs], els

        def check(ex, els, schedule):
            st.add("evaluations")
            st.add("states")
            st.add("traces")
            st.add("transitions", ex.steps)
            got = [ex.results.get(i) for i in range(len(pairs))]
            if got != want or ex.errors:
                st.violation("concurrent-equality-differs", "%s: under schedule %s the comparisons gave %s (errors %s), sequentially %s" % (label, sorted(schedule.items()), got, ex.errors, want), {"case": label, "schedule": sorted(schedule.items()), "got": got, "sequential": want}, rank=len(schedule))

        try:
            for start in range(len(pairs)):
                if shard and shard[0] != start:
                    continue
                res = sched.explore(make_bodies, check, 2 if (bound2 and label == "unequal-same-direction") else 1, "line" if not bound2 else "switch", base={0: start}, shard=(shard[1], shard[2]) if shard else (0, 1))
                st.add("schedules", res["executions"])
                st.sets["eq-points"].add(res["points_root"])
        except (sched.ScheduleDivergence, sched.Deadlock) as exc:
            st.violation("HARNESS:%s" % type(exc).__name__, "%s: %s" % (label, exc), {"case": label})
    st.sample({"threaded_equality_cases": sorted(cases)})
    st.outcome("threaded-equality")


def sharing_documents(st):
    """One class shared between equal object schemas of a document: each occurrence still means what it means alone."""
    from statham.schema.parser import parse_element

    items = [
        {"type": "object", "title": "Item", "properties": {"n": {"type": "integer"}}},
        {"type": "object", "title": "Item", "properties": {"n": {"type": "integer", "default": 0}}, "required": ["m"]},
        {"type": "object", "title": "Item"},
    ]
    decorations = [
        {"allOf": [{}], "default": {"n": 1}}, {"anyOf": [True], "default": {}}, {"oneOf": [{}], "allOf": [True], "default": None},
        {"default": {"n": 2}}, {"description": "second occurrence"}, {"allOf": [{"minProperties": 0}], "default": {"n": 3}}, {"not": False, "default": 5},
    ]
    probes = [NotPassed(), {}, {"n": 1}, {"n": "x"}, {"m": 1}, {"m": 1, "n": 2}, 5, None]
    for item in items:
        alone = parse_element(copy.deepcopy(item))
        vec_alone = [impl.do_call(alone, v)[0] for v in probes]
        js_alone = strip_titles(serialize_json(alone))
        for deco in decorations:
            for order in ("plain-first", "plain-last"):
                props = {"plain": copy.deepcopy(item), "filled": {**copy.deepcopy(item), **copy.deepcopy(deco)}}
                if order == "plain-last":
                    props = dict(reversed(list(props.items())))
                doc = {"type": "object", "title": "Outer", "required": ["plain"], "properties": props}
                st.add("states")
                st.add("transitions")
                st.add("evaluations")
                st.add("traces")
                st.add("nontrivial")
                case = {"item": item, "decoration": deco, "order": order}
                try:
                    outer = parse_element(copy.deepcopy(doc))
                    plain = next(p.element for p in outer.properties.values() if p.source == "plain")
                except Exception as exc:
                    st.violation("sharing:parse-raised:%s" % type(exc).__name__, "%r" % (exc,), case)
                    continue
                vec = [impl.do_call(plain, v)[0] for v in probes]
                if not (plain == alone) or vec != vec_alone or strip_titles(serialize_json(plain)) != js_alone:
                    st.violation("sharing-changes-meaning", "the plain occurrence of %s next to an equal one decorated with %s (%s) is %r; alone it is %r" % (json.dumps(item)[:120], json.dumps(deco), order, plain, alone), case)
                if impl.do_call(outer, {})[0] == impl.ACCEPT:
                    st.violation("sharing-changes-meaning:required", "the plain occurrence is required, yet the outer model accepts {} (%s, %s)" % (json.dumps(deco), order), case)
    st.outcome("sharing-documents")


def plan(tier, seed):
    n = len(pool())
    chunk = 8
    nthreads = {"unequal-same-direction": 2, "equal-same-direction": 2, "unequal-nested": 3, "mixed": 3}
    items = [("threads", c, False, (s0, r, 8)) for c, k in nthreads.items() for s0 in range(k) for r in range(8)]
    if tier == "thorough":
        items += [("threads", "unequal-same-direction", True, (s0, r, 32)) for s0 in range(2) for r in range(32)]
    items += [("rows", lo, min(n, lo + chunk)) for lo in range(0, n, chunk)] + [("sharing",)]
    return {"items": items, "chunksize": 2, "meta": {"pool": n, "ordered_pairs": n * n, "values": len(VALUES), "exhaustive": True}}


def work(item):
    st = runner.Stats()
    if item[0] == "threads":
        threaded_equality(st, item[1], item[2], item[3])
        return st
    if item[0] == "sharing":
        sharing_documents(st)
        return st
    p = pool()
    n = len(p)
    for i in range(item[1], item[2]):
        li, fi = p[i]
        a, veca, jsa = observe(i)
        st.add("states")
        # reflexive + rebuilt copy
        try:
            if not (a == a):
                st.violation("not-reflexive", "%s != itself" % li, {"a": li})
            b = fi()
            if not (a == b) or not (b == a):
                st.violation("rebuilt-copy-not-equal", "two independent builds of %s are not equal" % li, {"a": li})
        except Exception as exc:
            st.violation("eq-raised:%s" % type(exc).__name__, "%s: %r" % (li, exc), {"a": li})
        for j in range(n):
            lj = p[j][0]
            b, vecb, jsb = observe(j)
            st.add("transitions")
            st.add("evaluations")
            try:
                ab = bool(a == b)
                ba = bool(b == a)
            except Exception as exc:
                st.violation("eq-raised:%s" % type(exc).__name__, "%s == %s: %r" % (li, lj, exc), {"a": li, "b": lj})
                continue
            st.add("traces")
            if ab != ba:
                st.violation("not-symmetric", "(%s == %s) is %s but the converse is %s" % (li, lj, ab, ba), {"a": li, "b": lj})
            if ab and i != j:
                st.add("nontrivial")
                st.outcome("equal-pair")
                if veca != vecb:
                    k = [n2 for n2, (x, y) in enumerate(zip(veca, vecb)) if x != y][0]
                    st.violation("equal-but-validate-differently", "%s == %s but value %r is %s by the first and %s by the second" % (li, lj, VALUES[k], "accepted" if veca[k] else "rejected", "accepted" if vecb[k] else "rejected"), {"a": li, "b": lj, "value": VALUES[k]})
                if jsa != jsb:
                    st.violation("equal-but-serialize-differently", "%s == %s but they serialize to %s and %s" % (li, lj, jsa[:200], jsb[:200]), {"a": li, "b": lj, "json_a": jsa[:500], "json_b": jsb[:500]})
            elif not ab:
                st.outcome("unequal-pair")
            # replacement by a reference to a definition: only ever for an equal one
            try:
                doc = serialize_json(Array(a), definitions={"d": b})
                replaced = doc.get("items") == {"$ref": "#/definitions/d"}
            except Exception as exc:
                st.violation("serialize-with-definitions-raised:%s" % type(exc).__name__, "Array(%s) with definitions {d: %s}: %r" % (li, lj, exc), {"a": li, "b": lj})
                replaced = False
            if replaced and not ab:
                st.violation("replaced-by-unequal-definition", "serialize_json(Array(%s), definitions={'d': %s}) replaces the items by a reference to the definition although the two are not equal" % (li, lj), {"a": li, "b": lj, "document": doc})
            elif replaced:
                st.outcome("replaced-by-equal-definition")
        if i % 50 == 0:
            st.sample({"element": li, "compared_with": n})
    return st


def replay(case):
    st = runner.Stats()
    if "schedule" in case:
        threaded_equality(st)
        return [v for lst in st.violations.values() for _, v in lst]
    p = pool()
    labels = [l for l, _ in p]
    if case.get("a") in labels:
        i = labels.index(case["a"])
        st2 = work(("rows", i, i + 1))
        return [v for lst in st2.violations.values() for _, v in lst if v["case"].get("b") in (None, case.get("b"))]
    return []


if __name__ == "__main__":
    sys.exit(runner.main(sys.modules[__name__]))
