"""C01 — validation verdicts match Draft 6 (with the documented deviations).

E1 over the schema lattice x value alphabet.  Oracle: ref/draft6 (Kleene mask),
itself bound to jsonschema.Draft6Validator on every explored pair.
"""
import json
import sys

from mc import impl, lattice, runner
from mc.ref import draft6 as R

PROP = "C01"
LEVEL = "model_checking"
RULE = (
    "explicit-state BFS over the schema construction lattice (state = set of keyword atoms / wrapped schema, "
    "transition = add one atom or wrap at one sub-schema position); in every state the real parse_element(schema)(v) "
    "verdict is compared with the reference evaluator for every v of the value alphabet; a state is non-trivial when "
    "its verdict vector over the alphabet is not constant; distinct = distinct canonical schema JSON"
)
ASSUMPTIONS = [
    "keyword parameters and values outside the stated alphabets are not covered; floats are dyadic",
    "object-typed schemas carry an explicit title (the documented precondition of parse_element)",
    "reference evaluator mc/ref/draft6.py is trusted where jsonschema 4.26 crashes (counted as oracle_unavailable)",
    "a string that is not a well-formed instance of a registered format may be accepted or rejected (Draft 6 leaves format assertion optional)",
]

try:
    import jsonschema

    _D6 = jsonschema.Draft6Validator
except Exception:  # pragma: no cover
    _D6 = None


def metaschema_valid(schema):
    if _D6 is None:
        return True
    try:
        _D6.check_schema(schema)
        return True
    except jsonschema.SchemaError:
        return False
    except Exception:
        return True


def _has_big_int(v):
    if isinstance(v, bool):
        return False
    if isinstance(v, int):
        return abs(v) >= 2 ** 53
    if isinstance(v, list):
        return any(_has_big_int(x) for x in v)
    if isinstance(v, dict):
        return any(_has_big_int(x) for x in v.values())
    return False


def classify(schema, value, expected, kind):
    """Narrow root-cause predicates for recorded known findings; else a coarse signature."""
    from mc.checks import c01_known

    k = c01_known.classify(schema, value, expected, kind)
    if k:
        return k
    kws = sorted(k for k in schema) if isinstance(schema, dict) else [repr(schema)]
    exp = {R.V: "valid", R.I: "invalid"}.get(expected, "either")
    return "mismatch:%s->%s:%s" % (exp, kind, "+".join(kws))


def check_pair(st, schema, schema_text, element, value, js_validator, two_pass):
    """Returns (observed kind, expected mask)."""
    strict = R.verdict(schema, value, R.STRICT)
    if js_validator is not None:
        try:
            js = js_validator.is_valid(value)
            if js != (strict == R.V) and "multipleOf" in schema_text and _has_big_int(value):
                # jsonschema divides as floats and misjudges integers beyond 2**53; the reference is exact (Fraction)
                st.add("oracle_unavailable")
            elif js != (strict == R.V):
                st.add("ref_disagreements")
                st.violation("MODEL-ERROR:ref-vs-jsonschema", "reference evaluator disagrees with jsonschema", {"schema": schema, "value": value, "ref": strict, "jsonschema": js})
            else:
                st.add("traces")
        except Exception:
            st.add("oracle_unavailable")
    expected = R.verdict(schema, value, R.STATHAM) if two_pass else strict
    kind, _res = impl.do_call(element, value)
    st.add("evaluations")
    st.outcome("%s/%s" % ({1: "valid", 2: "invalid", 3: "either"}[expected], kind))
    ok = (kind == impl.ACCEPT and expected & R.V) or (kind == impl.REJECT and expected & R.I)
    if not ok:
        st.violation(classify(schema, value, expected, kind), "schema %s value %s: reference says %s, statham %s" % (schema_text[:300], json.dumps(runner.jsonable(value))[:120], {1: "valid", 2: "invalid", 3: "either"}[expected], kind), {"schema": schema, "value": value, "expected_mask": expected, "observed": kind})
    return kind, expected


def visit_schema(st, sid, schema, values, ntrans):
    if not metaschema_valid(schema):
        st.add("dropped_not_metaschema_valid")
        return
    st.add("states")
    st.add("transitions", ntrans)
    text = json.dumps(schema, sort_keys=True)
    kind, el = impl.do_parse(schema)
    if kind != impl.ELEMENT:
        st.violation("parse-failed:%s" % type(el).__name__, "metaschema-valid supported schema does not parse: %s -> %r" % (text[:300], el), {"schema": schema, "observed": kind, "error": repr(el)})
        return
    js_validator = None
    if _D6 is not None and isinstance(schema, (dict, bool)):
        try:
            js_validator = _D6(schema)
        except Exception:
            js_validator = None
    two_pass = R.needs_deviation_pass(text)
    kinds = set()
    for v in values:
        k, _ = check_pair(st, schema, text, el, v, js_validator, two_pass)
        kinds.add(k)
    if len(kinds) > 1:
        st.add("nontrivial")
    if st.c["states"] % 997 == 1:
        st.sample({"state": lattice.describe(sid), "schema": schema, "values": len(values), "verdict_kinds": sorted(kinds)})


def plan(tier, seed):
    items, meta = lattice.plan_items(tier, seed)
    meta["exhaustive"] = True
    # first use: every single-atom schema once more, each in a process that has only imported the library
    from mc.gen import atoms as A

    first = [("one", i) for (i,) in A.depth1()]
    meta["first_use_states_in_pristine_processes"] = len(first)
    return {"items": items, "pristine_items": first, "meta": meta}


def work(item):
    st = runner.Stats()
    for sid, schema, values, ntrans in lattice.expand(item):
        if schema is None:
            continue
        visit_schema(st, sid, schema, values, ntrans)
    return st


def replay(case):
    st = runner.Stats()
    schema, value = case["schema"], case["value"]
    text = json.dumps(schema, sort_keys=True)
    kind, el = impl.do_parse(schema)
    if kind != impl.ELEMENT:
        return [{"key": "parse-failed", "what": repr(el), "case": case}]
    check_pair(st, schema, text, el, value, None, True)
    return [v for lst in st.violations.values() for _, v in lst]


if __name__ == "__main__":
    sys.exit(runner.main(sys.modules[__name__]))
