"""C19 — generated type annotations are sound for every value a model can hold.

E1: every element of the pool (DSL family, compositions to nesting 2, parser image of the lattice) is placed (i) under a
property of a fresh model (required and optional) and (ii) as items of an array property; for every value of the lifted
alphabet that the model accepts (+ the omitted case) the runtime attribute is judged against the annotation the generator
emits, read structurally as a type checker reads it.
"""
import ast
import copy
import json
import sys

from mc import impl, runner
from mc.gen import atoms as A
from mc.gen import elements as E
from mc.gen import values as VAL

from statham.schema.constants import NotPassed
from statham.schema.elements import AllOf, AnyOf, Array, Boolean, Element, Integer, Not, Nothing, Null, Number, Object, OneOf, String
from statham.schema.elements.meta import ObjectClassDict, ObjectMeta
from statham.schema.property import Property
from statham.serializers.orderer import get_children

PROP = "C19"
LEVEL = "model_checking"
RULE = (
    "exhaustive enumeration: every pool element (DSL family incl. tuple items with/without additionalItems, object classes, "
    "anyOf/oneOf/allOf/not nested to depth 2 over typed, untyped and class members; the parser image of every <=1-atom lattice "
    "schema and of every wrapper of a leaf) x 4 placements (optional property, required property, items of an array property, required property added by a subclass after its parent was used) x "
    "every alphabet value the model accepts + the omitted case; the annotation text is taken from the generated property line, "
    "parsed with ast and judged structurally (Any, None, str, bool, int, float>=int, List[X], Union, Maybe[X] only place for the "
    "marker, class name => isinstance); non-trivial = (placement, value) pairs where the attribute is a container or model"
)
ASSUMPTIONS = ["defaults are restricted to ones valid for their schema (elements whose own default they reject are skipped, counted)"]

NP = NotPassed()


def composition_pool():
    out = []
    members = {
        "Integer()": lambda: Integer(), "String()": lambda: String(), "Number()": lambda: Number(), "Null()": lambda: Null(), "Element()": lambda: Element(),
        "Element(minimum=1)": lambda: Element(minimum=1), "Element(minProperties=1)": lambda: Element(minProperties=1), "Array(Integer())": lambda: Array(Integer()),
        "Plain": lambda: E._cls_plain(), "Element(required=['b'])": lambda: Element(required=["b"]), "Integer(default=1)": lambda: Integer(default=1),
    }
    names = sorted(members)
    for comp in (AnyOf, OneOf, AllOf):
        for a in names:
            out.append(("%s(%s)" % (comp.__name__, a), lambda comp=comp, a=a: comp(members[a]())))
            for b in names:
                if a == b:
                    continue
                out.append(("%s(%s, %s)" % (comp.__name__, a, b), lambda comp=comp, a=a, b=b: comp(members[a](), members[b]())))
    for a in names:
        out.append(("Not(%s)" % a, lambda a=a: Not(members[a]())))
    # nesting depth 2
    for outer in (AnyOf, OneOf, AllOf):
        for inner in (AnyOf, OneOf, AllOf):
            out.append(("%s(%s(Integer(), String()), Plain)" % (outer.__name__, inner.__name__), lambda outer=outer, inner=inner: outer(inner(Integer(), String()), E._cls_plain())))
            out.append(("%s(Element(minProperties=1), %s(Plain, Null()))" % (outer.__name__, inner.__name__), lambda outer=outer, inner=inner: outer(Element(minProperties=1), inner(E._cls_plain(), Null()))))
            out.append(("%s(Array(%s(Integer(), Null())), Null())" % (outer.__name__, inner.__name__), lambda outer=outer, inner=inner: outer(Array(inner(Integer(), Null())), Null())))
    for comp in (AnyOf, OneOf, AllOf):
        out.append(("%s(Integer(), Number(), default=1)" % comp.__name__, lambda comp=comp: comp(Integer(), Number(), default=1)))
    out.append(("Array([Integer(), String()])", lambda: Array([Integer(), String()])))
    out.append(("Array([Integer(), String()], additionalItems=False)", lambda: Array([Integer(), String()], additionalItems=False)))
    out.append(("Array([Integer()], additionalItems=String())", lambda: Array([Integer()], additionalItems=String())))
    out.append(("Array([Integer(), Plain], additionalItems=Null())", lambda: Array([Integer(), E._cls_plain()], additionalItems=Null())))
    def twins():
        a = Object.inline("Billing", properties={"b": Property(String(), required=True)})
        b = Object.inline("Shipping", properties={"b": Property(String(), required=True)})
        return a, b

    out.append(("Array([Billing, Shipping], additionalItems=False)", lambda: Array(list(twins()), additionalItems=False)))
    out.append(("Array([Array(Billing), Array(Shipping)], additionalItems=Null())", lambda: (lambda t: Array([Array(t[0]), Array(t[1])], additionalItems=Null()))(twins())))
    out.append(("AnyOf(Array(Billing), Shipping)", lambda: (lambda t: AnyOf(Array(t[0]), t[1]))(twins())))
    out.append(("Array([])", lambda: Array([])))
    out.append(("Array([], additionalItems=False)", lambda: Array([], additionalItems=False)))
    out.append(("Array([Integer()], additionalItems=False)", lambda: Array([Integer()], additionalItems=False)))
    out.append(("Array([], additionalItems=Integer())", lambda: Array([], additionalItems=Integer())))
    out.append(("Array(Array(Number()))", lambda: Array(Array(Number()))))
    out.append(("Array(AnyOf(Integer(), Array(String())))", lambda: Array(AnyOf(Integer(), Array(String())))))
    out.append(("Nothing()", lambda: Nothing()))
    out.append(("Element(items=Integer())", lambda: Element(items=Integer())))
    return out


def parsed_pool():
    out = []
    for i in range(A.N):
        s = A.schema_of((i,))
        out.append(("parse(%s)" % json.dumps(s, sort_keys=True), lambda s=s: _parse(s)))
    for w in A.WRAPPERS:
        for leaf in A.LEAVES:
            s = A.wrap(w, leaf)
            out.append(("parse(%s)" % json.dumps(s, sort_keys=True), lambda s=s: _parse(s)))
    for i in A.GROUPS["composition"]:
        for j in A.GROUPS["composition"]:
            if j > i and A.compatible(i, j) and A.ATOMS[i]["group"] == "composition":
                s = A.schema_of((i, j))
                out.append(("parse(%s)" % json.dumps(s, sort_keys=True), lambda s=s: _parse(s)))
    return out


def _parse(schema):
    kind, el = impl.do_parse(schema)
    if kind != impl.ELEMENT:
        raise RuntimeError("unparseable")
    return el


_POOL = []


def pool():
    if not _POOL:
        _POOL.extend(E.object_classes() + E.untyped_with_properties() + E.arrays_and_compositions() + composition_pool() + E.simple_elements(1) + parsed_pool())
    return _POOL


VALUES = VAL.V + VAL.V_OBJ + [[{"b": "s"}, {"b": "t"}], [[{"b": "s"}], [{"b": "t"}]], [[{"b": "s"}], [{"b": "t"}], None], [{"b": "s"}]]


# --------------------------------------------------------------------------- structural judge (ref/annot)
def judge(node, r, ns, top=False):
    if isinstance(node, ast.Constant) and node.value is None:
        return r is None
    if isinstance(node, ast.Name):
        n = node.id
        if n == "Any":
            return not isinstance(r, NotPassed) or top
        if n == "None":
            return r is None
        if n == "str":
            return type(r) is str
        if n == "bool":
            return type(r) is bool
        if n == "int":
            return isinstance(r, int)
        if n == "float":
            return isinstance(r, (int, float))
        if n == "List":
            return isinstance(r, list)
        if n in ns:
            return isinstance(r, ns[n])
        return None  # unknown name: cannot judge
    if isinstance(node, ast.Subscript):
        base = node.value.id if isinstance(node.value, ast.Name) else None
        sl = node.slice
        args = list(sl.elts) if isinstance(sl, ast.Tuple) else [sl]
        if base == "List":
            return isinstance(r, list) and all(judge(args[0], x, ns) is not False for x in r)
        if base == "Union":
            res = [judge(a, r, ns) for a in args]
            return True if any(x is True for x in res) else (None if any(x is None for x in res) else False)
        if base == "Maybe":
            return isinstance(r, NotPassed) or judge(args[0], r, ns)
    return None


def place(el, mode):
    cd = ObjectClassDict()
    if mode == "required-in-subclass":
        # the parent model is declared AND used first; the subclass then adds the required property
        pcd = ObjectClassDict()
        pcd["base"] = Property(Integer())
        parent = ObjectMeta("PlacementBase", (Object,), pcd)
        impl.do_call(parent, {"base": 1})
        impl.do_call(parent, {})
        cd["p"] = Property(el, required=True)
        return ObjectMeta("PlacementModel", (parent,), cd)
    if mode == "optional":
        cd["p"] = Property(el)
    elif mode == "required":
        cd["p"] = Property(el, required=True)
    else:
        cd["p"] = Property(Array(el))
    return ObjectMeta("PlacementModel", (Object,), cd)


def instances_in(x, depth=0):
    """Model instances inside a validation result (the result itself, list items, members), outermost first."""
    if depth > 8:
        return
    if isinstance(type(x), ObjectMeta):
        yield x
        for v in getattr(x, "_dict", {}).values():
            yield from instances_in(v, depth + 1)
    elif isinstance(x, list):
        for v in x:
            yield from instances_in(v, depth + 1)
    elif isinstance(x, dict):
        for v in x.values():
            yield from instances_in(v, depth + 1)


def annotation_of(model):
    line = model.properties["p"].python()
    head = line.split(" = ", 1)[0]
    return head.split(": ", 1)[1]


def check_element(st, label, factory, rank=0):
    probe = factory()
    d = getattr(probe, "default", NP)
    if not isinstance(d, NotPassed):
        k, r = impl.do_call(factory(), copy.deepcopy(d))
        if k != impl.ACCEPT:
            st.add("skipped_invalid_default")
            return
    for mode in ("optional", "required", "items", "required-in-subclass"):
        el = factory()
        try:
            model = place(el, mode)
            ann = annotation_of(model)
            tree = ast.parse(ann, mode="eval").body
        except Exception as exc:
            st.violation("annotation-unavailable:%s" % type(exc).__name__, "%s [%s]: %r" % (label, mode, exc), {"element": label, "placement": mode}, rank)
            continue
        st.add("states")
        # every name the annotation uses must be importable by the generated module: execute it in an empty namespace
        try:
            from statham.serializers import serialize_python

            text = serialize_python(model)
            gns = {"__builtins__": __builtins__}
            exec(compile(text, "<generated>", "exec"), gns)
            if not (gns.get("PlacementModel") == model):
                st.violation("generated-model-not-equal", "%s [%s]: executing serialize_python(model) gives an unequal model class" % (label, mode), {"element": label, "placement": mode, "module": text[:800]}, rank)
        except Exception as exc:
            st.violation("generated-module-broken:%s" % type(exc).__name__, "%s [%s]: annotation %s: the generated module fails: %r" % (label, mode, ann, exc), {"element": label, "placement": mode, "annotation": ann}, rank)
        ns = {c.__name__: c for c in [el] + list(get_children(el)) if isinstance(c, ObjectMeta)}
        prop = model.properties["p"]
        maybe = isinstance(tree, ast.Subscript) and isinstance(tree.value, ast.Name) and tree.value.id == "Maybe"
        has_default = not isinstance(getattr(prop.element, "default", NP), NotPassed)
        if not maybe and not (prop.required or has_default):
            st.violation("always-present-annotation-without-required-or-default", "%s [%s]: annotated %s but neither required nor defaulted" % (label, mode, ann), {"element": label, "placement": mode, "annotation": ann}, rank)
        inputs = [("omitted", {})]
        for v in VALUES:
            inputs.append((v, {"p": [v] if mode == "items" else v}))
            if mode == "items":
                inputs.append(("pair", {"p": [v, v]}))
        for v, value in inputs:
            kind, inst = impl.do_call(model, value)
            st.add("evaluations")
            st.add("transitions")
            if kind != impl.ACCEPT:
                continue
            st.add("traces")
            attr = inst.p
            if isinstance(attr, (list, dict)) or isinstance(type(attr), ObjectMeta):
                st.add("nontrivial")
            verdict = judge(tree, attr, ns, top=False)
            if not maybe and isinstance(attr, NotPassed):
                verdict = False
            # every model instance inside the value: ITS properties against ITS class's annotations
            for sub in instances_in(attr):
                for pname, sprop in type(sub).properties.items():
                    try:
                        sann = sprop.python().split(" = ", 1)[0].split(": ", 1)[1]
                        stree = ast.parse(sann, mode="eval").body
                        sval = getattr(sub, pname, NP)
                    except Exception as exc:
                        st.violation("nested-annotation-unavailable:%s" % type(exc).__name__, "%s [%s]: %s.%s: %r" % (label, mode, type(sub).__name__, pname, exc), {"element": label, "placement": mode}, rank)
                        continue
                    smaybe = isinstance(stree, ast.Subscript) and isinstance(stree.value, ast.Name) and stree.value.id == "Maybe"
                    sns = {c.__name__: c for c in [type(sub)] + list(get_children(type(sub))) if isinstance(c, ObjectMeta)}
                    sver = judge(stree, sval, {**ns, **sns}, top=False)
                    if not smaybe and isinstance(sval, NotPassed):
                        sver = False
                    if sver is False:
                        from mc.checks import c19_known

                        skey = c19_known.classify(label, sprop.element, mode, sann, sval)
                        if skey:
                            alt = c19_known.annotation_with_first_member_allof(lambda: sprop.python().split(" = ", 1)[0].split(": ", 1)[1])
                            try:
                                if judge(ast.parse(alt, mode="eval").body, sval, {**ns, **sns}) is False:
                                    skey = None
                            except Exception:
                                skey = None
                        st.violation(skey or "annotation-unsound:nested:%s" % sann.split("[")[0], "%s [%s]: %s.%s is annotated %s but holds %r (input %s)" % (label, mode, type(sub).__name__, pname, sann, sval, json.dumps(runner.jsonable(value))[:100]), {"element": label, "placement": mode, "class": type(sub).__name__, "attribute": pname, "annotation": sann, "value": value}, rank)
            st.outcome("sound" if verdict else ("unjudged" if verdict is None else "unsound"))
            if verdict is False:
                from mc.checks import c19_known

                key = c19_known.classify(label, el, mode, ann, attr)
                if key:
                    # confirm the root cause: with every AllOf announcing its FIRST member's annotation the attribute must be sound
                    alt = c19_known.annotation_with_first_member_allof(lambda: annotation_of(model))
                    try:
                        alt_ok = judge(ast.parse(alt, mode="eval").body, attr, ns) is not False
                    except Exception:
                        alt_ok = False
                    if not alt_ok:
                        key = None
                key = key or "annotation-unsound:%s" % ann.split("[")[0]
                st.violation(key, "%s [%s]: annotated %s but the attribute holds %r (input %s)" % (label, mode, ann, attr, json.dumps(runner.jsonable(value))[:100]), {"element": label, "placement": mode, "annotation": ann, "value": value, "attribute": repr(attr)[:200]}, rank)
    if st.c["states"] % 97 == 1:
        st.sample({"element": label, "annotation_optional": annotation_of(place(factory(), "optional"))})


def plan(tier, seed):
    n = len(pool())
    chunk = 12
    return {"items": [("els", lo, min(n, lo + chunk)) for lo in range(0, n, chunk)], "meta": {"pool": n, "placements": 4, "values": len(VALUES), "exhaustive": True}}


def work(item):
    st = runner.Stats()
    for label, fac in pool()[item[1]:item[2]]:
        try:
            check_element(st, label, fac)
        except RuntimeError:
            st.add("unparseable")
    return st


def replay(case):
    st = runner.Stats()
    for label, fac in pool():
        if label == case.get("element"):
            check_element(st, label, fac)
    return [v for lst in st.violations.values() for _, v in lst]


if __name__ == "__main__":
    sys.exit(runner.main(sys.modules[__name__]))
