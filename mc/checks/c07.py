"""C07 — defaults and object descriptions survive parsing and serialization.

E1 over (context x inner shape x default value [x second default]) and (class position x description string).
Oracle: the element at the position where the schema declares the default carries exactly that default
(type-strict); the multiset of defaults in the parsed tree, in serialize_json's document and in the classes
obtained by executing serialize_python equals the declared multiset; no default container is shared by
identity between two elements; descriptions arrive character for character as cls.description, JSON
"description" and the generated class's docstring/description.
"""
import copy
import itertools
import json
import sys

from mc import docs, impl, runner

from statham.schema.constants import NotPassed
from statham.schema.elements import Element
from statham.schema.elements.meta import ObjectMeta
from statham.schema.parser import parse
from statham.schema.property import _Property
from statham.serializers import serialize_json, serialize_python
from statham.serializers.orderer import get_children

PROP = "C07"
LEVEL = "model_checking"
RULE = (
    "exhaustive product: 13 contexts (root, property of typed/untyped object, renamed property, single/tuple/additional items, "
    "composition branch, nested twice, ...) x 20 inner shapes (untyped, 7 types, single/multi type lists, anyOf/oneOf/allOf/not "
    "alone and with siblings, object class with composition) x 14 default values (false 0 0.0 \"\" [] {} null true 1 \"x\" [0] "
    "{a:null} {default:1} nested) x {no second default, second default on the context}; and 6 class positions x a 40-string "
    "description alphabet; every case runs the real parser, both serializers and exec of the generated module; non-trivial = "
    "cases whose default is falsy or a container, or whose description contains a quote/backslash/newline/non-ASCII"
)
ASSUMPTIONS = [
    "for a one-member composition whose member and whose outer schema both declare a default only the outer one is judged (the statement speaks of a schema and the schemas of its properties, not of composition members)",
    "description strings exclude lone surrogates (not encodable in a module file)",
]

NP = NotPassed()
DEFAULTS = [False, 0, 0.0, "", [], {}, None, True, 1, "x", [0], {"a": None}, {"default": 1}, [{"a": [False]}, 0], [[{"z": 1}], [[{"y": [{"x": 0}]}]]]]


# --------------------------------------------------------------------------- inner shapes: schema carrying "default": D
def inner_shapes():
    T = lambda extra: (lambda d: {**copy.deepcopy(extra), "default": d})
    out = [("untyped", T({})), ("untyped+kw", T({"minimum": 1}))]
    for t in ("null", "boolean", "integer", "number", "string", "array"):
        out.append(("type:" + t, T({"type": t})))
    out.append(("type:object", T({"type": "object", "title": "In"})))
    out.append(("type:[string]", T({"type": ["string"]})))
    out.append(("type:[object]", T({"type": ["object"], "title": "In"})))
    out.append(("type:[string,integer]", T({"type": ["string", "integer"]})))
    out.append(("type:[object,null]", T({"type": ["object", "null"], "title": "In"})))
    for kw in ("anyOf", "oneOf", "allOf"):
        out.append((kw, T({kw: [{"type": "string"}, {"minimum": 1}]})))
    out.append(("not", T({"not": {"type": "string"}})))
    # compositions whose members are all trivial: what is left to carry the default is "the trivial element"
    # the composition collapses to its only member, which declares a default of its own: the statement speaks of the schema
    # (or property schema) that carries the composition, so that default is the one the position must carry; nothing is
    # demanded of the member's (the multiset comparison is switched off for these shapes)
    out.append(("one-member-with-own-default:allOf", T({"allOf": [{"type": "integer", "default": 3}]})))
    out.append(("one-member-with-own-default:anyOf-nested", T({"anyOf": [{"oneOf": [{"type": "string"}, {"type": "null"}], "default": "inner"}]})))
    out.append(("allOf[{}]", T({"allOf": [{}]})))
    out.append(("object+allOf[{}]", T({"type": "object", "title": "In", "allOf": [{}], "anyOf": [True]})))
    out.append(("anyOf[true]+oneOf[{}]", T({"anyOf": [True], "oneOf": [{}]})))
    out.append(("type+anyOf", T({"type": "string", "anyOf": [{"minLength": 1}, {"maxLength": 3}]})))
    out.append(("kw+not", T({"minLength": 1, "not": {"const": "q"}})))
    out.append(("anyOf+oneOf+not", T({"anyOf": [{}, {"type": "null"}], "oneOf": [{"type": "string"}, {"type": "integer"}], "not": {"const": 3}})))
    out.append(("object+anyOf", T({"type": "object", "title": "In", "anyOf": [{"required": ["a"]}, {"required": ["b"]}]})))
    out.append(("object+props+allOf", T({"type": "object", "title": "In", "properties": {"q": {"type": "integer"}}, "allOf": [{"minProperties": 0}, {"maxProperties": 9}]})))
    return out


# --------------------------------------------------------------------------- contexts: place X, find X's element again
def _prop(tree, name):
    props = tree.properties
    for n, p in props.items():
        if (p.source or n) == name:
            return p.element
    raise KeyError(name)


def contexts():
    C = []
    C.append(("root", lambda x, d2: x, lambda t: t, False))
    C.append(("typed.property", lambda x, d2: _d2({"type": "object", "title": "Ctx", "properties": {"p": x, "other": {"type": "integer"}}}, d2), lambda t: _prop(t, "p"), True))
    C.append(("typed.renamed-property", lambda x, d2: _d2({"type": "object", "title": "Ctx", "properties": {"a b": x, "class": {"type": "integer", "default": 7}}, "required": ["a b"]}, d2), lambda t: _prop(t, "a b"), True))
    C.append(("untyped.property", lambda x, d2: _d2({"properties": {"p": x}}, d2), lambda t: _prop(t, "p"), True))
    C.append(("items", lambda x, d2: _d2({"type": "array", "items": x}, d2), lambda t: t.items, True))
    C.append(("untyped.items", lambda x, d2: _d2({"items": x}, d2), lambda t: t.items, True))
    C.append(("tuple-items[1]", lambda x, d2: _d2({"type": "array", "items": [{"type": "integer", "default": 5}, x]}, d2), lambda t: t.items[1], True))
    C.append(("additionalItems", lambda x, d2: _d2({"type": "array", "items": [{}], "additionalItems": x}, d2), lambda t: t.additionalItems, True))
    C.append(("additionalProperties", lambda x, d2: _d2({"type": "object", "title": "Ctx", "additionalProperties": x}, d2), lambda t: t.additionalProperties, True))
    C.append(("patternProperties", lambda x, d2: _d2({"patternProperties": {"^a": x}}, d2), lambda t: t.patternProperties["^a"], True))
    C.append(("anyOf-branch", lambda x, d2: _d2({"anyOf": [x, {"type": "null"}]}, d2), lambda t: t.elements[0], True))
    C.append(("dependencies", lambda x, d2: _d2({"dependencies": {"k": x}}, d2), lambda t: t.dependencies["k"], True))
    for comp in ("allOf", "anyOf", "oneOf"):
        C.append(("ref-shared-%s" % comp, lambda x, d2, comp=comp: _d2({"type": "object", "title": "Ctx", "properties": {"q": {"$ref": "#/definitions/s"}, "p": {comp: [{"$ref": "#/definitions/s"}], "default": x.get("default") if isinstance(x, dict) else None}, "r": {"$ref": "#/definitions/s"}}, "definitions": {"s": {"type": "string", "minLength": 1}}}, d2), lambda t: _prop(t, "p"), True))
    C.append(("shared-definition-with-default", lambda x, d2: _d2({"type": "object", "title": "Ctx", "properties": {"q": {"$ref": "#/definitions/s"}, "r": {"$ref": "#/definitions/s"}, "arr": {"type": "array", "items": {"$ref": "#/definitions/s"}}}, "definitions": {"s": x}}, d2), lambda t: _prop(t, "q"), True))
    def sib(x, value):
        return {**copy.deepcopy(x), "default": value} if isinstance(x, dict) else x

    # the same shape twice in one document (and a third time after it), each with its own default
    C.append(("typed.siblings-same-shape", lambda x, d2: _d2({"type": "object", "title": "Ctx", "properties": {"p": x, "s": sib(x, "sibling default"), "t": sib(x, [1, {"t": 0}])}}, d2), lambda t: _prop(t, "p"), True))
    C.append(("untyped.siblings-same-shape-reversed", lambda x, d2: _d2({"properties": {"s": sib(x, {"sibling": None}), "p": x}, "items": sib(x, 0.5)}, d2), lambda t: _prop(t, "p"), True))
    def plain_twin(x):
        return {k: v for k, v in copy.deepcopy(x).items() if k not in ("default", "allOf", "anyOf", "oneOf", "not")} if isinstance(x, dict) else x

    # an equal schema WITHOUT the default (and without the composition keywords) earlier in the same document: it must not gain one
    C.append(("typed.plain-twin-first", lambda x, d2: _d2({"type": "object", "title": "Ctx", "properties": {"first": plain_twin(x), "p": x, "last": plain_twin(x)}}, d2), lambda t: _prop(t, "p"), True))
    C.append(("property.of.property", lambda x, d2: _d2({"type": "object", "title": "Ctx", "properties": {"o": {"type": "object", "title": "Mid", "properties": {"p": x}, "default": {"p": 1}}}}, d2), lambda t: _prop(_prop(t, "o"), "p"), True))
    return C


def _d2(schema, d2):
    if d2 is not None:
        schema = dict(schema)
        schema["default"] = d2
    return schema


def declared_defaults(schema, out=None):
    """Defaults declared at schema positions of the *source* schema (not inside literals)."""
    if out is None:
        out = []
    if isinstance(schema, dict):
        if "default" in schema:
            out.append(schema["default"])
        for k, v in schema.items():
            if k in ("properties", "patternProperties", "dependencies", "definitions"):
                if isinstance(v, dict):
                    for sub in v.values():
                        declared_defaults(sub, out)
            elif k in ("items", "additionalItems", "additionalProperties", "contains", "propertyNames", "not"):
                if isinstance(v, list):
                    for sub in v:
                        declared_defaults(sub, out)
                else:
                    declared_defaults(v, out)
            elif k in ("anyOf", "oneOf", "allOf"):
                for sub in v:
                    declared_defaults(sub, out)
    return out


def tree_defaults(tree):
    """(element, default) for every element of the tree that carries one (each element once, by identity)."""
    seen, out = set(), []
    for el in [tree] + list(get_children(tree)):
        if id(el) in seen:
            continue
        seen.add(id(el))
        d = getattr(el, "default", NP)
        if not isinstance(d, NotPassed):
            out.append((el, d))
    return out


def canon(x):
    return json.dumps(runner.jsonable(_typed(x)), sort_keys=True)


def _typed(x):
    if isinstance(x, bool):
        return {"$bool": x}
    if isinstance(x, float):
        return {"$float": repr(x)}
    if isinstance(x, int):
        return {"$int": x}
    if isinstance(x, list):
        return [_typed(i) for i in x]
    if isinstance(x, dict):
        return {k: _typed(v) for k, v in x.items()}
    return x


def multiset(values):
    return sorted(canon(v) for v in values)


def check_default_case(st, cname, place, find, iname, make, d, d2, rank):
    x = make(copy.deepcopy(d))
    schema = place(x, copy.deepcopy(d2))
    case = {"context": cname, "inner": iname, "default": d, "second_default": d2, "schema": schema}
    st.add("states")
    st.add("transitions")
    declared = declared_defaults(schema)
    multiset_ok = not cname.startswith("shared-definition") and not iname.startswith("one-member-with-own-default")  # one declared default, legitimately present once per reference / once on a shared class
    try:
        tree = parse(docs.load(schema))[0]
    except Exception as exc:
        st.violation("parse-raised:%s" % type(exc).__name__, "%s/%s default %r: %r" % (cname, iname, d, exc), case, rank)
        return
    st.add("evaluations")
    st.add("traces")
    if not d or isinstance(d, (list, dict)):
        st.add("nontrivial")
    # (a) the element at the declaring position carries exactly the default
    try:
        target = find(tree)
        got = getattr(target, "default", NP)
    except Exception as exc:
        st.violation("position-lost:%s" % type(exc).__name__, "%s/%s: cannot find the declaring position in the parsed tree: %r" % (cname, iname, exc), case, rank)
        return
    if isinstance(got, NotPassed) or not impl.strict_eq(got, d):
        st.violation("default-lost-or-altered:%s" % ("falsy" if not d else "truthy"), "%s/%s: schema declares default %r at the position, parsed element carries %r" % (cname, iname, d, got), {**case, "got": repr(got)}, rank)
    # (a') a default declared at one position must not appear on an unrelated element (e.g. a shared definition)
    if cname.startswith("typed.plain-twin-first"):
        # the equal schemas that declare NO default must not have gained one (a class shared between equal object schemas
        # is only shared as far as the schemas are equal)
        for other in ("first", "last"):
            try:
                od = getattr(_prop(tree, other), "default", NP)
            except Exception:
                continue
            if not isinstance(od, NotPassed):
                st.violation("default-shared-with-unrelated-element", "%s/%s: property %r declares no default, its element carries %r (declared on property 'p')" % (cname, iname, other, od), case, rank)
    if cname.startswith("ref-shared"):
        for other in ("q", "r"):
            od = getattr(_prop(tree, other), "default", NP)
            if not isinstance(od, NotPassed):
                st.violation("default-leaked-to-shared-definition", "%s/%s: default %r declared on property p also appears on property %s which only references the shared definition" % (cname, iname, d, other), case, rank)
    # (b) nothing dropped / invented / duplicated anywhere
    have = tree_defaults(tree)
    if multiset_ok and multiset(declared) != multiset([v for _, v in have]):
        st.violation("default-multiset-differs:parse", "%s/%s: declared defaults %s, parsed tree carries %s" % (cname, iname, multiset(declared), multiset([v for _, v in have])), case, rank)
    # (c) no container default shared by identity between two elements
    ids = {}
    for el, v in have:
        if isinstance(v, (list, dict)):
            if id(v) in ids and ids[id(v)] is not el:
                st.violation("default-shared-by-identity", "%s/%s: one default object %r is shared by two elements" % (cname, iname, v), case, rank)
            ids[id(v)] = el
    # (d) JSON serialization
    try:
        doc = serialize_json(tree)
        jd = declared_defaults(doc)
        if multiset_ok and multiset(jd) != multiset(declared):
            st.violation("default-multiset-differs:json", "%s/%s: declared %s, JSON document carries %s: %s" % (cname, iname, multiset(declared), multiset(jd), json.dumps(doc)[:300]), {**case, "document": doc}, rank)
        else:
            t2 = parse(docs.load(doc))[0]
            got2 = getattr(find(t2), "default", NP)
            if isinstance(got2, NotPassed) or not impl.strict_eq(got2, d):
                st.violation("default-moved:json", "%s/%s: after serialize_json+parse the declaring position carries %r instead of %r" % (cname, iname, got2, d), {**case, "document": doc}, rank)
    except Exception as exc:
        st.violation("json-raised:%s@%s" % (type(exc).__name__, impl.where(exc)), "%s/%s default %r: %r" % (cname, iname, d, exc), case, rank)
    # (e) Python serialization: executed classes carry the same defaults at the same position
    try:
        classes = [c for c in [tree] + list(get_children(tree)) if isinstance(c, ObjectMeta)]
        if classes:
            text = serialize_python(tree)
            ns = {}
            exec(compile(text, "<generated>", "exec"), ns)
            for cls in classes:
                gen = ns.get(cls.__name__)
                if gen is None:
                    st.violation("python-class-missing", "%s/%s: class %s missing from generated module" % (cname, iname, cls.__name__), {**case, "module": text[:800]}, rank)
                    continue
                want = multiset([v for _, v in tree_defaults(cls)])
                gotm = multiset([v for _, v in tree_defaults(gen)])
                if multiset_ok and want != gotm:
                    st.violation("default-multiset-differs:python", "%s/%s: class %s carries defaults %s, generated class %s" % (cname, iname, cls.__name__, want, gotm), {**case, "module": text[:800]}, rank)
            if isinstance(tree, ObjectMeta):
                gt = ns.get(tree.__name__)
                if gt is not None:
                    got3 = getattr(find(gt), "default", NP)
                    if isinstance(got3, NotPassed) or not impl.strict_eq(got3, d):
                        st.violation("default-moved:python", "%s/%s: generated class carries %r at the position instead of %r" % (cname, iname, got3, d), {**case, "module": text[:800]}, rank)
    except Exception as exc:
        st.violation("python-raised:%s" % type(exc).__name__, "%s/%s default %r: %r" % (cname, iname, d, exc), case, rank)
    st.outcome("default:%s" % type(d).__name__)


# --------------------------------------------------------------------------- descriptions
def description_alphabet():
    base = [
        "plain text", "", " ", "  leading", "trailing  ", 'say "hi"', 'ends with quote"', '"', '""', '"""', '""""', "a\"\"\"b", "'", "'''", "\\", "\\\\", "back\\slash", "ends with backslash\\",
        "\\n literal", "real\nnewline", "\nleading newline", "trailing newline\n", "tab\there", "cr\rhere", "crlf\r\nhere", "{x}", "{0!r}", "%s", "é", "naïve café ☕", "\U0001f4a9",
        "\\N{DASH}", "\\x41", "\\u1234", "#comment", "r\"raw\"", "\"\"\"\\", "\\\"", "a\\\"\"\"", "multi\nline\n  indented\n", "\x0c", "\x00nul", "hard break.  \nmore", "a | b \n", "p1\n \np2", "tab before newline\t\nx", "  \n  ",
    ]
    return base


def class_positions():
    P = []
    P.append(("root-class", lambda s: {"type": "object", "title": "Doc", "description": s, "properties": {"a": {"type": "integer"}}}, lambda t: t))
    P.append(("root-class-empty", lambda s: {"type": "object", "title": "Doc", "description": s}, lambda t: t))
    P.append(("property-class", lambda s: {"type": "object", "title": "Outer", "description": "outer", "properties": {"p": {"type": "object", "title": "Doc", "description": s}}}, lambda t: _prop(t, "p")))
    P.append(("items-class", lambda s: {"type": "array", "items": {"type": "object", "title": "Doc", "description": s, "properties": {"x": {}}}}, lambda t: t.items))
    P.append(("anyOf-class", lambda s: {"anyOf": [{"type": "object", "title": "Doc", "description": s}, {"type": "null"}]}, lambda t: t.elements[0]))
    # two object schemas that share a title and differ in nothing but their descriptions: each keeps its own
    twin = lambda d: {"type": "object", "title": "Doc", "description": d, "properties": {"x": {"type": "integer"}}}
    P.append(("twins-differing-only-in-description", lambda s: {"type": "object", "title": "Outer", "properties": {"p": twin(s), "q": twin(s + " (other)"), "r": {"type": "array", "items": twin(s + " (third)")}}}, lambda t: _prop(t, "p")))
    P.append(("class+composition", lambda s: {"type": "object", "title": "Doc", "description": s, "anyOf": [{"required": ["a"]}, {"required": ["b"]}]}, lambda t: t.elements[0]))
    return P


def check_description_case(st, pname, make, find, s, rank):
    schema = make(s)
    case = {"position": pname, "description": s, "schema": schema}
    st.add("states")
    st.add("transitions")
    st.add("evaluations")
    st.add("traces")
    if any(ch in s for ch in '"\\\n\r\t') or any(ord(ch) > 127 for ch in s) or s.strip() != s or not s:
        st.add("nontrivial")
    try:
        tree = parse(docs.load(schema))[0]
        cls = find(tree)
    except Exception as exc:
        st.violation("parse-raised:%s" % type(exc).__name__, "%s description %r: %r" % (pname, s, exc), case, rank)
        return
    if getattr(cls, "description", None) != s or type(getattr(cls, "description", None)) is not str:
        st.violation("description-lost:parse", "%s: description %r parsed as %r" % (pname, s, getattr(cls, "description", None)), case, rank)
    if pname.startswith("twins"):
        want = sorted([s, s + " (other)", s + " (third)"])
        try:
            got = sorted([_prop(tree, "p").description, _prop(tree, "q").description, _prop(tree, "r").items.description])
            if got != want:
                st.violation("description-lost:parse:twin", "%s: descriptions %r parsed as %r" % (pname, want, got), case, rank)
            doc = json.loads(json.dumps(serialize_json(tree)))
            found = []

            def walk(node):
                if isinstance(node, dict):
                    if node.get("type") == "object" and str(node.get("title", "")).startswith("Doc"):
                        found.append(node.get("description"))
                    for v in node.values():
                        walk(v)
                elif isinstance(node, list):
                    for v in node:
                        walk(v)

            walk(doc)
            if sorted(map(str, found)) != want:
                st.violation("description-lost:json:twin", "%s: descriptions %r serialized as %r" % (pname, want, found), {**case, "document": doc}, rank)
            ns2 = {}
            exec(compile(serialize_python(tree), "<generated>", "exec"), ns2)
            docs_ = sorted(str(v.__doc__) for k, v in ns2.items() if isinstance(v, ObjectMeta) and k.startswith("Doc"))
            if docs_ != want:
                st.violation("docstring-differs:twin", "%s: descriptions %r, generated docstrings %r" % (pname, want, docs_), case, rank)
        except Exception as exc:
            st.violation("twin-raised:%s" % type(exc).__name__, "%s description %r: %r" % (pname, s, exc), case, rank)
    try:
        doc = serialize_json(tree)

        def find_desc(node):
            if isinstance(node, dict):
                if node.get("title") == "Doc":
                    return node.get("description", NP)
                for v in node.values():
                    r = find_desc(v)
                    if r is not None:
                        return r
            if isinstance(node, list):
                for v in node:
                    r = find_desc(v)
                    if r is not None:
                        return r
            return None

        jd = find_desc(json.loads(json.dumps(doc)))
        if jd != s:
            st.violation("description-lost:json", "%s: description %r serialized as %r" % (pname, s, jd), {**case, "document": doc}, rank)
    except Exception as exc:
        st.violation("json-raised:%s" % type(exc).__name__, "%s description %r: %r" % (pname, s, exc), case, rank)
    try:
        text = serialize_python(tree)
        ns = {}
        exec(compile(text, "<generated>", "exec"), ns)
        gen = ns["Doc"]
        if gen.__doc__ != s:
            st.violation("docstring-differs", "%s: description %r, generated class docstring %r" % (pname, s, gen.__doc__), {**case, "module": text[:600]}, rank)
        if gen.description != s:
            st.violation("generated-description-differs", "%s: description %r, generated class description %r" % (pname, s, gen.description), {**case, "module": text[:600]}, rank)
        if not (gen == cls):
            st.violation("generated-class-not-equal", "%s: description %r: generated class != parsed class" % (pname, s), {**case, "module": text[:600]}, rank)
    except SyntaxError as exc:
        st.violation("generated-module-syntax-error", "%s: description %r makes the generated module invalid: %r" % (pname, s, exc), case, rank)
    except Exception as exc:
        st.violation("python-raised:%s" % type(exc).__name__, "%s description %r: %r" % (pname, s, exc), case, rank)
    st.outcome("description")


def plan(tier, seed):
    ctxs, inners = contexts(), inner_shapes()
    items = []
    for ci in range(len(ctxs)):
        for ii in range(len(inners)):
            items.append(("def", ci, ii))
    for pi in range(len(class_positions())):
        items.append(("desc", pi))
    # first use: one (context, shape, default) per process that has only imported the library (a falsy scalar and a container)
    first = [("first", ci, ii, di) for ci in range(len(ctxs)) for ii in range(len(inners)) for di in (1, 10)]
    return {"items": items, "pristine_items": first, "chunksize": 4, "meta": {"first_use_cases_in_pristine_processes": len(first), "contexts": [c[0] for c in ctxs], "inner_shapes": [i[0] for i in inners], "defaults": len(DEFAULTS), "second_default": [None, {"z": 0}], "class_positions": [p[0] for p in class_positions()], "descriptions": len(description_alphabet()), "exhaustive": True}}


def work(item):
    st = runner.Stats()
    if item[0] == "first":
        cname, place, find, takes_d2 = contexts()[item[1]]
        iname, make = inner_shapes()[item[2]]
        d = DEFAULTS[item[3]]
        check_default_case(st, cname + "/first-use", place, find, iname, make, d, None, rank=0)
        check_default_case(st, cname + "/second-use", place, find, iname, make, DEFAULTS[(item[3] + 3) % len(DEFAULTS)], {"z": 0} if takes_d2 else None, rank=1)
        docs.clear()
        return st
    if item[0] == "def":
        cname, place, find, takes_d2 = contexts()[item[1]]
        iname, make = inner_shapes()[item[2]]
        for d in DEFAULTS:
            for d2 in ([None, {"z": 0}] if takes_d2 else [None]):
                if d2 is not None and cname in ("anyOf-branch",):
                    pass
                check_default_case(st, cname, place, find, iname, make, d, d2, rank=0 if not isinstance(d, (list, dict)) else 1)
        if item[2] == 0:
            st.sample({"context": cname, "inner": iname, "schema": place(make(False), None)})
    else:
        pname, make, find = class_positions()[item[1]]
        for s in description_alphabet():
            check_description_case(st, pname, make, find, s, rank=len(s))
        st.sample({"position": pname, "descriptions": description_alphabet()[:6]})
    docs.clear()
    return st


def replay(case):
    st = runner.Stats()
    if "context" in case:
        ctx = {c[0]: c for c in contexts()}[case["context"]]
        inner = dict(inner_shapes())[case["inner"]]
        check_default_case(st, ctx[0], ctx[1], ctx[2], case["inner"], inner, case["default"], case.get("second_default"), 0)
    else:
        pos = {p[0]: p for p in class_positions()}[case["position"]]
        check_description_case(st, pos[0], pos[1], pos[2], case["description"], 0)
    return [v for lst in st.violations.values() for _, v in lst]


if __name__ == "__main__":
    sys.exit(runner.main(sys.modules[__name__]))
