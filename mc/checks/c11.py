"""C11 — class declaration order is a complete topological order; cycles are refused.

E1 over all digraphs (self-loops allowed) on n <= 3 labelled classes (thorough: n = 4), every edge realised through one of
17 dependency positions, several root sets.  Cycles are created the only way the DSL allows: assignment after class
creation.  Oracle (ref/topo, cross-checked with networkx): reachable sub-graph acyclic => the yielded sequence is a
permutation of the reachable classes with every class after all its dependencies; cyclic => SchemaParseError; always
within a call-event budget.
"""
import itertools
import sys

from mc import impl, runner

from statham.schema.elements import AllOf, AnyOf, Array, Element, Integer, Not, Null, Object, OneOf, String
from statham.schema.elements.meta import ObjectClassDict, ObjectMeta
from statham.schema.exceptions import SchemaParseError
from statham.schema.property import Property
from statham.serializers.orderer import orderer

try:
    import networkx as nx
except Exception:  # pragma: no cover
    nx = None

PROP = "C11"
LEVEL = "model_checking"
RULE = (
    "(also: every inheritance forest over 3 classes x all 512 keyword digraphs x 2 (thorough 4) position kinds, the parent model counting as a dependency) exhaustive enumeration of all labelled digraphs with self-loops on n<=3 classes (2^9=512; thorough also n=4, 65536) x 17 "
    "position kinds (one kind per graph) x root sets (each single class, all, reversed, a pair, a non-object wrapper; for n=3 in the quick tier: singles + all), plus all graphs with <=3 edges x all assignments of position kinds to "
    "edges (seed-rotated slice: quick 1/64, thorough 1/4 of the assignments); the real orderer is run under a call-event budget and compared with a "
    "DFS reference (cross-checked with networkx); distinct = (graph, positions, roots); non-trivial = cases whose reachable "
    "sub-graph has at least one edge"
)
ASSUMPTIONS = ["distinct class names (documented assumption of the orderer)"]

KINDS = [
    "properties", "additionalProperties", "patternProperties", "propertyNames", "dependencies",
    "items", "tuple-items", "additionalItems", "additionalItems/single-items", "additionalItems/no-items", "contains", "anyOf", "oneOf", "allOf", "not", "nested-properties", "nested-twice",
    "patternProperties/dotted-key", "dependencies/dotted-key", "untyped-properties/dotted-key", "patternProperties/star-key",
]
BUDGET = 400_000


def attach(src, targets_by_kind, tag):
    """Make class `src` depend on the target classes, each through its position kind (assignment after creation)."""
    single = {}
    for n, (kind, tgt) in enumerate(targets_by_kind):
        name = "d%s_%d" % (tag, n)
        if kind == "properties":
            src.properties[name] = Property(tgt)
        elif kind == "patternProperties":
            pp = dict(src.patternProperties or {}) if isinstance(src.patternProperties, dict) else {}
            pp["^%s" % name] = tgt
            src.patternProperties = pp
        elif kind == "dependencies":
            dd = dict(src.dependencies or {}) if isinstance(src.dependencies, dict) else {}
            dd[name] = tgt
            src.dependencies = dd
        elif kind == "patternProperties/dotted-key":
            pp = dict(src.patternProperties or {}) if isinstance(src.patternProperties, dict) else {}
            pp["^x-%s\\..*$" % name] = tgt
            src.patternProperties = pp
        elif kind == "patternProperties/star-key":
            pp = dict(src.patternProperties or {}) if isinstance(src.patternProperties, dict) else {}
            pp["*" if not pp else "%s*" % name] = tgt
            src.patternProperties = pp
        elif kind == "dependencies/dotted-key":
            dd = dict(src.dependencies or {}) if isinstance(src.dependencies, dict) else {}
            dd["billing.%s" % name] = tgt
            src.dependencies = dd
        elif kind == "untyped-properties/dotted-key":
            src.properties[name] = Property(Element(properties={"a.b": Property(tgt), "*": Property(Array(tgt))}))
        elif kind in ("additionalProperties", "propertyNames"):
            single.setdefault(kind, []).append(tgt)
        elif kind == "items":
            src.properties[name] = Property(Array(tgt))
        elif kind == "tuple-items":
            src.properties[name] = Property(Array([Integer(), tgt]))
        elif kind == "additionalItems":
            src.properties[name] = Property(Array([Integer()], additionalItems=tgt))
        elif kind == "additionalItems/single-items":
            src.properties[name] = Property(Array(String(), additionalItems=tgt))
        elif kind == "additionalItems/no-items":
            src.properties[name] = Property(Element(additionalItems=tgt))
        elif kind == "contains":
            src.properties[name] = Property(Element(contains=tgt))
        elif kind == "anyOf":
            src.properties[name] = Property(AnyOf(Null(), tgt))
        elif kind == "oneOf":
            src.properties[name] = Property(OneOf(tgt, Null()))
        elif kind == "allOf":
            src.properties[name] = Property(AllOf(Element(), tgt))
        elif kind == "not":
            src.properties[name] = Property(Not(tgt))
        elif kind == "nested-properties":
            src.properties[name] = Property(Element(properties={"x": Property(tgt)}, patternProperties={"^y": Element(dependencies={"k": tgt})}))
        elif kind == "nested-twice":
            src.properties[name] = Property(Array(AnyOf(Array(Element(items=[Not(tgt)])), Null())))
        else:
            raise KeyError(kind)
    for kind, tgts in single.items():
        el = tgts[0] if len(tgts) == 1 else AllOf(*tgts)
        setattr(src, kind, el)


def build(n, edges, kinds, parents=None):
    """edges: list of (i, j) meaning class i depends on class j; kinds: parallel list of position kinds;
    parents: optional list, parents[i] = index (< i) of the model class i inherits from, or None."""
    classes = []
    for i in range(n):
        cd = ObjectClassDict()
        cd["own%d" % i if parents else "own"] = Property(String())
        base = Object if not parents or parents[i] is None else classes[parents[i]]
        # created under one common name and renamed afterwards, the way the parser keeps same-titled models apart
        # (the class keeps its creation-time __qualname__; the name that counts is __name__)
        cls = ObjectMeta("K", (base,), cd)
        cls.__name__ = "K%d" % i
        classes.append(cls)
    per_src = {}
    for (i, j), k in zip(edges, kinds):
        per_src.setdefault(i, []).append((k, classes[j]))
    for i, lst in per_src.items():
        attach(classes[i], lst, str(i))
    return classes


def reference(n, edges, roots):
    """-> ("order", reachable set, deps) or ("cycle",)"""
    adj = {i: set() for i in range(n)}
    for i, j in edges:
        adj[i].add(j)
    reach = set()
    stack = list(roots)
    while stack:
        x = stack.pop()
        if x in reach:
            continue
        reach.add(x)
        stack.extend(adj[x])
    # cycle detection on the reachable sub-graph (DFS colours)
    colour = {}

    def dfs(u):
        colour[u] = 1
        for v in adj[u]:
            if v not in reach:
                continue
            if colour.get(v) == 1:
                return True
            if v not in colour and dfs(v):
                return True
        colour[u] = 2
        return False

    cyclic = any(dfs(u) for u in sorted(reach) if u not in colour)
    if nx is not None:
        g = nx.DiGraph()
        g.add_nodes_from(reach)
        g.add_edges_from((i, j) for i, j in edges if i in reach and j in reach)
        assert (not nx.is_directed_acyclic_graph(g)) == cyclic, "reference vs networkx"
    if cyclic:
        return ("cycle",)
    return ("order", reach, adj)


ROOTSETS = ["each-single", "all", "pair", "wrapped", "reversed-all"]


def root_sets(n):
    out = []
    for i in range(n):
        out.append(("single%d" % i, [i], None))
    out.append(("all", list(range(n)), None))
    out.append(("reversed-all", list(range(n))[::-1], None))
    if n >= 2:
        out.append(("pair", [n - 1, 0], None))
    out.append(("wrapped0", [0], "wrap"))
    if n >= 2:
        out.append(("class+wrapped-other", [0, n - 1], "wrap-last"))
    return out


def judge(st, n, edges, kinds, rank, few_roots=False, parents=None):
    for rlabel, roots, wrap in root_sets(n):
        if few_roots and not (rlabel.startswith("single") or rlabel == "all"):
            continue
        classes = build(n, edges, kinds, parents)
        elements = [classes[i] for i in roots]
        if wrap == "wrap":
            elements = [Array(AnyOf(classes[roots[0]], Integer()))]
        elif wrap == "wrap-last":
            elements = [classes[roots[0]], Array(classes[roots[-1]])]
        case = {"n": n, "edges": edges, "kinds": kinds, "roots": rlabel}
        if parents:
            case["parents"] = parents
            # the class statement itself: a model depends on the model it inherits from
            edges = edges + [(i, p) for i, p in enumerate(parents) if p is not None and (i, p) not in edges]
        st.add("states")
        st.add("transitions", max(1, len(edges)))
        st.add("evaluations")
        want = reference(n, edges, roots)
        try:
            got = impl.with_budget(lambda: [c.__name__ for c in orderer(*elements)], BUDGET)
            outcome = ("order", got)
        except SchemaParseError:
            outcome = ("cycle",)
        except impl.Budget:
            outcome = ("timeout",)
        except Exception as exc:
            outcome = ("raised", type(exc).__name__, repr(exc)[:200])
        st.add("traces")
        if any(i in want[1] for i, j in edges) if want[0] == "order" else True:
            st.add("nontrivial")
        st.outcome("%s/%s" % (want[0], outcome[0]))
        if outcome[0] == "timeout":
            st.violation("orderer-did-not-terminate", "%s: budget of %d call events exceeded" % (case, BUDGET), case, rank)
        elif outcome[0] == "raised":
            st.violation("orderer-raised:%s%s" % (outcome[1], ":inheritance" if parents else ""), "%s: %s" % (case, outcome[2]), case, rank)
        elif want[0] == "cycle":
            if outcome[0] != "cycle":
                st.violation("cycle-not-refused", "%s: cyclic dependencies but the orderer yielded %s" % (case, outcome[1]), {**case, "yielded": outcome[1]}, rank)
        else:
            if outcome[0] == "cycle":
                st.violation("acyclic-refused", "%s: acyclic but the orderer raised the schema-parse error" % (case,), case, rank)
                continue
            got = outcome[1]
            reach, adj = want[1], want[2]
            names = ["K%d" % i for i in sorted(reach)]
            if sorted(got) != sorted(names):
                st.violation("incomplete-or-duplicated-order", "%s: reachable classes %s, yielded %s" % (case, names, got), {**case, "yielded": got}, rank)
                continue
            pos = {name: k for k, name in enumerate(got)}
            bad = [(i, j) for i in reach for j in adj[i] if pos["K%d" % j] > pos["K%d" % i]]
            if bad:
                st.violation("dependency-after-dependent", "%s: yielded %s but %s" % (case, got, ["K%d needs K%d" % b for b in bad]), {**case, "yielded": got}, rank)


def inheritance_cases(st):
    """Models that inherit from another model AND refer to it (or to others) from a keyword position: the parent model is a
    dependency through the class statement itself.  Oracle: a permutation of all classes, every class after its parents and
    after everything it refers to."""
    def mk(name, bases=(Object,)):
        cd = ObjectClassDict()
        cd["own_" + name.lower()] = Property(String())
        return ObjectMeta(name, bases, cd)

    n = 0
    for kind in KINDS:
        for kind2 in ("properties", "items", "anyOf", "additionalProperties"):
            for shape in ("node(base)->base,other", "node(base)->other->leaf", "grand(node(base))->base", "node(base), sib(base)->node", "node(base)->base twice"):
                base, other, leaf = mk("Base"), mk("Other"), mk("Leaf")
                node = mk("Node", (base,))
                classes = [base, other, node]
                deps = {"Node": {"Base"}}
                roots = [node]
                if shape == "node(base)->base,other":
                    attach(node, [(kind, base), (kind2, other)], "n")
                    deps["Node"] |= {"Other"}
                elif shape == "node(base)->other->leaf":
                    attach(node, [(kind, other)], "n")
                    attach(other, [(kind2, leaf)], "o")
                    attach(base, [(kind2, leaf)], "b")
                    classes.append(leaf)
                    deps["Node"] |= {"Other"}
                    deps["Other"] = {"Leaf"}
                    deps["Base"] = {"Leaf"}
                elif shape == "grand(node(base))->base":
                    grand = mk("Grand", (node,))
                    attach(grand, [(kind, base), (kind2, other)], "g")
                    classes.append(grand)
                    deps["Grand"] = {"Node", "Base", "Other"}
                    roots = [grand]
                elif shape == "node(base), sib(base)->node":
                    sib = mk("Sib", (base,))
                    attach(sib, [(kind, node), (kind2, other)], "s")
                    classes.append(sib)
                    deps["Sib"] = {"Base", "Node", "Other"}
                    roots = [sib]
                else:
                    attach(node, [(kind, base), (kind2, base), ("properties", other)], "n")
                    deps["Node"] |= {"Other"}
                n += 1
                st.add("states")
                st.add("transitions", 3)
                st.add("evaluations")
                st.add("traces")
                st.add("nontrivial")
                case = {"inheritance_shape": shape, "kinds": [kind, kind2]}
                try:
                    got = impl.with_budget(lambda: [c.__name__ for c in orderer(*roots)], BUDGET)
                except Exception as exc:
                    st.violation("orderer-raised:%s:inheritance" % type(exc).__name__, "%s: %r" % (case, exc), case)
                    continue
                reach = set()
                stack = [r.__name__ for r in roots]
                while stack:
                    x = stack.pop()
                    if x not in reach:
                        reach.add(x)
                        stack.extend(deps.get(x, ()))
                if sorted(got) != sorted(reach):
                    st.violation("incomplete-or-duplicated-order:inheritance", "%s: classes %s, yielded %s" % (case, sorted(reach), got), {**case, "yielded": got})
                    continue
                pos = {name: k for k, name in enumerate(got)}
                bad = [(a, b) for a in reach for b in deps.get(a, ()) if pos[b] > pos[a]]
                if bad:
                    st.violation("dependency-after-dependent:inheritance", "%s: yielded %s but %s" % (case, got, ["%s needs %s" % x for x in bad]), {**case, "yielded": got})
                st.outcome("inheritance/order")


PARENT_FORESTS = [(None, 0, None), (None, None, 0), (None, None, 1), (None, 0, 0), (None, 0, 1)]
FOREST_KINDS = ["properties", "anyOf", "additionalProperties", "nested-twice"]


def all_graphs(n):
    pairs = [(i, j) for i in range(n) for j in range(n)]
    for mask in range(1 << len(pairs)):
        yield [p for k, p in enumerate(pairs) if mask >> k & 1]


def plan(tier, seed):
    items = []
    for n in (1, 2, 3):
        total = 1 << (n * n)
        step = 8
        for lo in range(0, total, step):
            items.append(("uniform", n, lo, min(total, lo + step), None))
    # mixed positions on graphs with <= 3 edges (n = 3)
    mod = 64 if tier == "quick" else 4
    for r in range(64):
        items.append(("mixed", 3, r, 64, (seed % mod, mod)))
    items.append(("inherit",))
    # inheritance forests over 3 classes x every keyword digraph
    for parents in PARENT_FORESTS:
        for lo in range(0, 512, 16):
            items.append(("forest", parents, lo, lo + 16))
    if tier == "thorough":
        total = 1 << 16
        step = 256
        for lo in range(0, total, step):
            items.append(("uniform", 4, lo, min(total, lo + step), ["properties", "anyOf", "nested-twice"]))
    return {"items": items, "meta": {"kinds": KINDS, "root_sets": ROOTSETS, "n_complete": 3 if tier == "quick" else 4, "mixed_positions_slice": "1/%d of assignments (seed-rotated)" % mod if mod > 1 else "all", "budget_call_events": BUDGET, "exhaustive": True}}


def work(item):
    st = runner.Stats()
    if item[0] == "inherit":
        inheritance_cases(st)
        st.sample({"inheritance_shapes": 5, "kinds": len(KINDS) * 4})
        return st
    if item[0] == "forest":
        _, parents, lo, hi = item
        pairs = [(i, j) for i in range(3) for j in range(3)]
        for mask in range(lo, hi):
            edges = [p for k, p in enumerate(pairs) if mask >> k & 1]
            for kind in FOREST_KINDS[: 2 if _TIER[0] == "quick" else 4]:
                judge(st, 3, edges, [kind] * len(edges), rank=len(edges) + 1, few_roots=_TIER[0] == "quick", parents=list(parents))
        st.sample({"n": 3, "parents": list(parents), "graph_masks": [lo, hi]})
        return st
    if item[0] == "uniform":
        _, n, lo, hi, kinds = item
        pairs = [(i, j) for i in range(n) for j in range(n)]
        for mask in range(lo, hi):
            edges = [p for k, p in enumerate(pairs) if mask >> k & 1]
            for kind in (kinds or KINDS):
                judge(st, n, edges, [kind] * len(edges), rank=len(edges), few_roots=(n >= 3 and _TIER[0] == "quick") or n >= 4)
        st.sample({"n": n, "graph_masks": [lo, hi], "kinds": kinds or KINDS})
    else:
        _, n, r, m, (sr, sm) = item
        pairs = [(i, j) for i in range(n) for j in range(n)]
        count = 0
        for k in (1, 2, 3):
            for edges in itertools.combinations(pairs, k):
                for kinds in itertools.product(KINDS, repeat=k):
                    count += 1
                    if count % m != r:
                        continue
                    if (count // m) % sm != sr:
                        continue
                    judge(st, n, list(edges), list(kinds), rank=k)
        st.sample({"mixed_positions": True, "n": n, "shard": [r, m]})
    return st


_TIER = ["quick"]


def _main():
    import os

    for i, a in enumerate(sys.argv):
        if a == "--tier" and i + 1 < len(sys.argv):
            _TIER[0] = sys.argv[i + 1]
    if os.environ.get("VERIF_TIER") and "--tier" not in sys.argv:
        _TIER[0] = os.environ["VERIF_TIER"]
    return runner.main(sys.modules[__name__])


def replay(case):
    st = runner.Stats()
    judge(st, case["n"], [tuple(e) for e in case["edges"]], case["kinds"], 0)
    return [v for lst in st.violations.values() for _, v in lst if v["case"].get("roots") == case.get("roots")]


if __name__ == "__main__":
    sys.exit(_main())
