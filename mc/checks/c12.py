"""C12 — every JSON name maps to a usable, unambiguous Python name.

(a) ALL 1 114 112 code points, alone and in 5 contexts, + all strings of length <= 3 over a 12-symbol alphabet + every
    keyword / dir(object) name / attribute the Object machinery uses, through the real name mapper;
(b) injectivity on sibling sets: images grouped per family, and behaviourally -- two sibling names in ONE parsed schema
    must both survive as distinct properties;
(c) titles: all code points in context through the title mapper; behaviourally (generate + exec the module) for all
    ASCII/Latin-1 titles, every name the generated module imports or uses, and category representatives.
"""
import itertools
import json
import keyword
import sys
import unicodedata

from mc import docs, impl, runner

import statham.schema.elements as elements_mod
from statham.schema.constants import NotPassed
from statham.schema.elements import Object
from statham.schema.elements.meta import ObjectMeta, RESERVED_PROPERTIES
from statham.schema.parser import _parse_attribute_name, _title_format, parse
from statham.serializers import serialize_python
from statham.serializers.orderer import get_children

PROP = "C12"
LEVEL = "model_checking"
RULE = (
    "exhaustive over the code-point alphabet: every one of the 1,114,112 code points alone and in the contexts a+c, c+a, a+c+b, "
    "_+c+_, c+c through the real property-name mapper, and in 3 contexts through the real title mapper; all strings of length <=3 "
    "over a 12-symbol alphabet; all Python keywords, dir(object) names and Object-machinery attributes; images are judged "
    "(identifier, not keyword, not reserved, NFKC-stable) and grouped to find sibling collisions; a behavioural layer parses "
    "schemas with one / two sibling property names and generates+executes modules for titles; distinct = distinct source "
    "strings; non-trivial = sources whose image differs from the source"
)
ASSUMPTIONS = ["strings longer than 3 symbols over the small alphabet / more than one arbitrary code point in a fixed context are not covered"]

SMALL = ["a", "A", "1", "_", "-", " ", ".", "$", "é", "\t", "", "class"]
CONTEXTS = [("c", lambda c: c), ("a+c", lambda c: "a" + c), ("c+a", lambda c: c + "a"), ("a+c+b", lambda c: "a" + c + "b"), ("_+c+_", lambda c: "_" + c + "_"), ("c+c", lambda c: c + c)]
TITLE_CONTEXTS = [("c", lambda c: c), ("A+c+b", lambda c: "A" + c + "b"), ("c+Abc", lambda c: c + "Abc")]
MODULE_NAMES = {"Any", "List", "Union", "Maybe", "Property", "None", "True", "False", "AllOf", "AnyOf", "Array", "Boolean", "Element", "Integer", "Not", "Nothing", "Null", "Number", "Object", "OneOf", "String"}
MACHINERY = ["properties", "default", "required", "additionalProperties", "patternProperties", "description", "inline", "validators", "type_validator", "annotation", "python", "mro", "const", "enum", "dependencies", "propertyNames", "minProperties", "maxProperties", "_dict", "_properties", "__dict__", "__weakref__", "__module__", "__slots__", "__properties__", "__items__", "construct", "self", "value", "cls", "_property",
             "__debug__", "__qualname__", "__annotations__", "__classcell__", "__name__", "__bases__", "__mro__", "__call__", "__getattr__", "__getitem__", "__iter__", "__len__", "__bool__", "__contains__", "__set_name__", "__prepare__", "__class_getitem__", "__mro_entries__", "__instancecheck__", "__subclasscheck__", "__get__", "__set__", "__delete__", "__del__", "__copy__", "__deepcopy__", "__post_init__", "__match_args__", "__orig_bases__", "__parameters__", "__origin__", "__args__", "__wrapped__", "__file__", "__builtins__", "__import__", "__build_class__", "__loader__", "__spec__", "__path__", "__all__"]


def judge_image(src, img):
    """-> list of problem keys for one (source name, python name) pair"""
    out = []
    if not isinstance(img, str) or not img.isidentifier():
        out.append("image-not-identifier")
    elif keyword.iskeyword(img):
        out.append("image-is-keyword")
    elif img in RESERVED_PROPERTIES:
        out.append("image-is-reserved-attribute")
    elif unicodedata.normalize("NFKC", img) != img:
        out.append("image-nfkc-unstable")
    return out


def cp_class(c):
    """Equivalence class of a code point for the recorded findings (narrow, stated in known_findings.json)."""
    try:
        unicodedata.name(c)
        named = True
    except ValueError:
        named = False
    return "unnamed" if not named else unicodedata.category(c)


def named(c):
    try:
        unicodedata.name(c)
        return True
    except ValueError:
        return False


def scan_codepoints(st, lo, hi, pair_contexts=("c",)):
    groups = {}
    for cp in range(lo, hi):
        c = chr(cp)
        for cname, f in CONTEXTS:
            src = f(c)
            try:
                img = _parse_attribute_name(src)
            except Exception as exc:
                st.violation("mapper-raised:%s" % type(exc).__name__, "name %r: %r" % (src, exc), {"name": src, "context": cname, "codepoint": cp})
                continue
            st.add("evaluations")
            if img != src:
                st.add("nontrivial")
            if cname == "c":
                st.outcome("identity" if img == src else "prefixed" if img == "_" + src else "suffixed" if img == src + "_" else "normalised" if unicodedata.normalize("NFKC", src) in (img, img[1:]) else "labelled")
            for key in judge_image(src, img):
                st.violation("%s:%s" % (key, _known_class(key, c, src, img)), "property name %r (U+%04X in context %s) maps to %r" % (src, cp, cname, img), {"name": src, "context": cname, "codepoint": cp, "image": img})
            groups.setdefault((cname, img), []).append(cp)
        for cname, f in TITLE_CONTEXTS:
            t = f(c)
            try:
                cls = _title_format(t)
            except Exception as exc:
                st.violation("title-mapper-raised:%s" % type(exc).__name__, "title %r: %r" % (t, exc), {"title": t})
                continue
            st.add("evaluations")
            # reduction lemma checked exhaustively: a character outside [a-zA-Z0-9] acts exactly like a space, so the class
            # name of ANY title equals that of an ASCII title -- and all ASCII/Latin-1 titles are tested behaviourally below
            if not (c.isascii() and c.isalnum()):
                if cls != _title_format(f(" ")):
                    st.violation("title-separator-lemma-fails", "title %r (U+%04X) maps to %r but the same title with a space maps to %r" % (t, cp, cls, _title_format(f(" "))), {"title": t, "codepoint": cp, "class_name": cls})
            elif cls and not (cls.isascii() and cls.isalnum()):
                st.violation("class-name-not-ascii-alnum", "title %r maps to %r" % (t, cls), {"title": t, "codepoint": cp, "class_name": cls})
        if pair_contexts:
            for cname in pair_contexts:
                src = CONTEXTS_D[cname](c)
                img = _parse_attribute_name(src)
                if img != src and (named(c) or cp % 997 == 0):
                    behavioural_pair(st, src, img)
                nf = unicodedata.normalize("NFKC", src)
                if nf != src:
                    behavioural_pair(st, src, nf)
    st.add("states", hi - lo)
    st.add("transitions", (hi - lo) * (len(CONTEXTS) + len(TITLE_CONTEXTS)))
    st.add("traces", (hi - lo) * (len(CONTEXTS) + len(TITLE_CONTEXTS)))
    # mapper-level collisions are only counted: the property is about siblings of ONE object, which the parser de-duplicates;
    # every collision candidate (name vs its image, name vs its NFKC form) is tested behaviourally above
    for (cname, img), cps in groups.items():
        if len(cps) > 1:
            st.add("mapper_level_collision_groups")


CONTEXTS_D = dict(CONTEXTS)


def _known_class(key, c, src, img):
    if key == "image-not-identifier":
        return "alnum-but-not-xid:" + unicodedata.category(c) if c.isalnum() else "other:" + unicodedata.category(c)
    if key == "image-nfkc-unstable":
        return "compat-char:" + unicodedata.category(c)
    return unicodedata.category(c)


def judge_title(cls):
    out = []
    if cls == "":
        out.append("class-name-empty")
    elif not cls.isidentifier():
        out.append("class-name-not-identifier")
    elif keyword.iskeyword(cls) or cls in MODULE_NAMES:
        out.append("class-name-shadows-module-name")
    elif unicodedata.normalize("NFKC", cls) != cls:
        out.append("class-name-nfkc-unstable")
    return out


def small_strings():
    out = []
    for k in (1, 2, 3):
        for combo in itertools.product(SMALL, repeat=k):
            out.append("".join(combo))
    out += list(keyword.kwlist) + list(getattr(keyword, "softkwlist", [])) + dir(object) + MACHINERY
    # names that are not in NFKC form (compatibility characters) and names only an identifier after normalisation
    out += ["\ufb01le", "\uff2b", "\u00b5", "\u00aa", "a\u00b2", "\u2160x", "x\u0301", "\u0958", "\u212b", "\u1e9b\u0323", "\ufdfa", "a\u200db", "\u2460"]
    seen, res = set(), []
    for s in out:
        if s not in seen:
            seen.add(s)
            res.append(s)
    return res


def behavioural_property(st, name):
    """One property with this JSON name: usable end to end."""
    schema = {"type": "object", "title": "T", "properties": {name: {"type": "string"}}, "additionalProperties": False}
    case = {"name": name}
    kind, model = impl.do_parse(schema)
    st.add("evaluations")
    st.add("traces")
    if kind != impl.ELEMENT:
        st.violation("unusable:parse-%s" % kind, "property name %r: parse gave %r" % (name, model), case)
        return
    props = model.properties
    if len(props) != 1:
        st.violation("unusable:property-count", "property name %r: model has %d properties" % (name, len(props)), case)
        return
    py, prop = next(iter(props.items()))
    if prop.source != name:
        st.violation("source-not-recorded", "property name %r: prop.source is %r" % (name, prop.source), case)
    for key in judge_image(name, py):
        st.violation("%s:behavioural" % key, "property name %r maps to attribute %r" % (name, py), {**case, "image": py})
    k2, inst = impl.do_call(model, {name: "v"})
    if k2 != impl.ACCEPT:
        st.violation("unusable:rejects-own-property:%s" % k2, "property name %r: model rejects {name: 'v'}: %r" % (name, inst), case)
        return
    try:
        got = getattr(inst, py)
        r = repr(inst)
        d = inst._dict
        ok = got == "v" and isinstance(r, str) and d.get(py) == "v"
    except Exception as exc:
        ok = False
        got = exc
    if not ok:
        st.violation("unusable:value-not-readable", "property name %r (attribute %r): read back %r" % (name, py, got), case)
    try:
        text = serialize_python(model)
        gns = {"__builtins__": __builtins__}
        exec(compile(text, "<generated>", "exec"), gns)
        if not (gns.get("T") == model) or list(gns["T"].properties) != [py]:
            st.violation("generated-class-differs", "property name %r (attribute %r): the generated class has attributes %s and is %sequal to the parsed model" % (name, py, list(gns["T"].properties) if "T" in gns else None, "" if gns.get("T") == model else "not "), {**case, "module": text[:500]})
    except Exception as exc:
        st.violation("generated-module-broken:%s" % type(exc).__name__, "property name %r (attribute %r): %r" % (name, py, exc), case)
    # objects the parser visits twice (type list, sibling composition keyword) must record the JSON name just the same
    for vlabel, variant in (("type-list", {**schema, "type": ["object", "null"]}), ("sibling-anyOf", {**schema, "anyOf": [{}]}), ("required+not", {**schema, "required": [name], "not": {"required": ["zz"]}}), ("pattern-matches-the-name-too", {**schema, "patternProperties": {"": {"maxLength": 5}}})):
        kv, mv = impl.do_parse(variant)
        if kv != impl.ELEMENT:
            st.violation("unusable:parse-%s:%s" % (kv, vlabel), "property name %r (%s): %r" % (name, vlabel, mv), case)
            continue
        classes = [c for c in [mv] + list(get_children(mv)) if isinstance(c, ObjectMeta)]
        srcs = [p.source for c in classes[:1] for p in c.properties.values()]
        if srcs != [name]:
            st.violation("source-not-recorded:%s" % vlabel, "property name %r (%s): the model records sources %r" % (name, vlabel, srcs), {**case, "variant": vlabel})
        else:
            ka, _ = impl.do_call(mv, {name: "v"})
            kb, _ = impl.do_call(mv, {name: 1})
            if ka == impl.ACCEPT and isinstance(mv, ObjectMeta):
                try:
                    vpy = next(iter(mv.properties))
                    vinst = mv({name: "v"})
                    vok = getattr(vinst, vpy) == "v" and vinst._dict.get(vpy) == "v" and isinstance(repr(vinst), str)
                except Exception as exc:
                    vok = False
                if not vok:
                    st.violation("unusable:value-not-readable:%s" % vlabel, "property name %r (%s): the value is not readable under the attribute name" % (name, vlabel), {**case, "variant": vlabel})
            if ka != impl.ACCEPT or kb == impl.ACCEPT:
                st.violation("unusable:variant-verdict:%s" % vlabel, "property name %r (%s): {name:'v'} -> %s, {name:1} -> %s" % (name, vlabel, ka, kb), {**case, "variant": vlabel})
    # a class-level default that mentions the property: the attribute must not get in the way of the machinery's own
    # class attributes (default, properties, ...) when the model is instantiated without a value
    kd, md = impl.do_parse({**schema, "default": {name: "dflt"}})
    if kd == impl.ELEMENT:
        try:
            inst = md()
            got = getattr(inst, py, None)
            ok = isinstance(inst, md) and got == "dflt"
            inst2 = md()
            ok = ok and isinstance(inst2, md) and getattr(inst2, py, None) == "dflt" and impl.do_call(md, {name: "w"})[0] == impl.ACCEPT and getattr(md({name: "w"}), py, None) == "w"
        except Exception as exc:
            ok, got = False, exc
        if not ok:
            st.violation("unusable:class-default", "property name %r (attribute %r) with the class default {name: 'dflt'}: instantiating without a value gives %r" % (name, py, got), {**case, "image": py})
    else:
        st.violation("unusable:parse-%s:class-default" % kd, "property name %r with a class default: %r" % (name, md), case)
    k3, _ = impl.do_call(model, {name: 1})
    if k3 == impl.ACCEPT:
        st.violation("unusable:property-schema-ignored", "property name %r: the property's own schema is not applied" % name, case)


def behavioural_pair(st, n1, n2):
    schema = {"type": "object", "title": "T", "properties": {n1: {"const": 1}, n2: {"const": 2}}}
    case = {"names": [n1, n2]}
    st.add("evaluations")
    st.add("traces")
    kind, model = impl.do_parse(schema)
    if kind != impl.ELEMENT:
        st.violation("pair:parse-%s" % kind, "sibling names %r, %r: %r" % (n1, n2, model), case)
        return
    sources = sorted(str(p.source) for p in model.properties.values())
    ok = len(model.properties) == 2 and sources == sorted([n1, n2])
    if ok:
        a, _ = impl.do_call(model, {n1: 1, n2: 2})
        b, _ = impl.do_call(model, {n1: 2})
        c, _ = impl.do_call(model, {n2: 1})
        ok = a == impl.ACCEPT and b != impl.ACCEPT and c != impl.ACCEPT
        if ok:
            k, inst = impl.do_call(model, {n1: 1, n2: 2})
            vals = sorted(repr(v) for v in inst._dict.values())
            ok = vals == ["1", "2"]
    if not ok:
        i1, i2 = _parse_attribute_name(n1), _parse_attribute_name(n2)
        key = "sibling-collapse:" + ("same-image" if i1 == i2 else "image-equals-sibling-name" if i1 == n2 or i2 == n1 else "other")
        st.violation(key, "sibling property names %r and %r collapse (attributes %r / %r; model keeps sources %s)" % (n1, n2, i1, i2, sources), {**case, "images": [i1, i2]})


def behavioural_pair_required(st, n1, n2):
    """Sibling names that are only listed under "required" (typed objects get implicit properties for them), and the mixed
    case of one declared + one required-only name: both must survive with their JSON names recorded."""
    for label, schema in (
        ("required-only", {"type": "object", "title": "T", "required": [n1, n2]}),
        ("declared+required-only", {"type": "object", "title": "T", "properties": {n1: {"const": 1}}, "required": [n2]}),
        ("required-only+declared", {"type": "object", "title": "T", "properties": {n2: {"const": 2}}, "required": [n1, n2]}),
    ):
        st.add("evaluations")
        st.add("traces")
        case = {"names": [n1, n2], "shape": label}
        kind, model = impl.do_parse(schema)
        if kind != impl.ELEMENT:
            st.violation("pair:parse-%s" % kind, "sibling names %r, %r (%s): %r" % (n1, n2, label, model), case)
            continue
        sources = sorted(str(p.source) for p in model.properties.values())
        ok = sources == sorted([n1, n2])
        if ok:
            a, _ = impl.do_call(model, {n1: 1, n2: 2})
            b, _ = impl.do_call(model, {n1: 1})
            ok = a == impl.ACCEPT and b != impl.ACCEPT
        if not ok:
            st.violation("sibling-collapse:%s" % label, "sibling names %r and %r (%s): model keeps sources %s" % (n1, n2, label, sources), case)


_NO_TITLE = object()


def behavioural_title(st, title, autotitle=None):
    schema = {"type": "object", **({"title": title} if title is not _NO_TITLE else {}), **({"_x_autotitle": autotitle} if autotitle is not None else {}), "properties": {"child": {"type": "object", "title": "Child", "properties": {"x": {"type": "array", "items": {"type": ["integer", "string"]}}}}}}
    case = {"title": title if title is not _NO_TITLE else None, "autotitle": autotitle}
    title = case["title"]
    st.add("evaluations")
    st.add("traces")
    try:
        if autotitle is not None:
            # the labeller would overwrite a hand-set automatic title: parse directly
            from statham.schema.parser import parse_element as _pe
            import copy as _copy

            schema["properties"]["child"]["_x_autotitle"] = "child"
            elements = [_pe(_copy.deepcopy(schema))]
        else:
            elements = parse(docs.load(schema))
    except Exception as exc:
        if type(exc).__name__ in ("SchemaParseError", "FeatureNotImplementedError"):
            st.outcome("title-refused")
            if isinstance(autotitle, str) and _ascii_alnum(autotitle) and not _ascii_alnum(title or ""):
                # the labeller's automatic title is the documented fallback for objects without a usable title
                st.violation("title:usable-autotitle-refused", "title %r with automatic title %r: %r" % (title, autotitle, exc), case)
            return
        st.violation("title:parse-raised:%s" % type(exc).__name__, "title %r: %r" % (title, exc), case)
        return
    root = elements[0]
    name = getattr(root, "__name__", None)
    for key in judge_title(name or ""):
        st.violation("%s:behavioural" % key, "title %r gives class name %r" % (title, name), {**case, "class_name": name})
    try:
        text = serialize_python(*elements)
        ns = {}
        exec(compile(text, "<generated>", "exec"), ns)
        gen = ns.get(name)
        if not isinstance(gen, ObjectMeta) or gen is Object or not (gen == root):
            st.violation("title:generated-class-wrong", "title %r: generated module does not define an equal class %r" % (title, name), {**case, "module": text[:500]})
        else:
            k, _ = impl.do_call(gen, {"child": {"x": [1, "a"]}})
            if k != impl.ACCEPT:
                st.violation("title:generated-class-unusable", "title %r: generated class rejects valid data" % title, case)
    except Exception as exc:
        st.violation("title:module-broken:%s" % type(exc).__name__, "title %r (class name %r): generated module fails: %r" % (title, name, exc), {**case, "class_name": name})


def behavioural_untitled(st, name, position):
    """An untitled object under a member called `name` (the labeller derives the automatic title from that name):
    the document is supported whatever the name is, and the class gets a usable name."""
    inner = {"type": "object", "properties": {"x": {"type": "integer"}}, "required": ["x"]}
    if position == "properties":
        doc = {"type": "object", "title": "Root", "properties": {name: inner, "other": {"type": "object", "properties": {"y": {}}}}}
    else:
        doc = {"type": "object", "title": "Root", "patternProperties": {name: inner}, "properties": {"other": {"type": "object", "properties": {"y": {}}}}}
    case = {"member": name, "position": position}
    st.add("evaluations")
    st.add("traces")
    try:
        elements = parse(docs.load(doc))
    except Exception as exc:
        st.violation("untitled:parse-raised:%s" % type(exc).__name__, "untitled object under %s[%r]: %r" % (position, name, exc), case)
        return
    from statham.serializers.orderer import get_object_classes

    classes = []
    for c in get_object_classes(*elements):
        if not any(c is k for k in classes):
            classes.append(c)
    names = [c.__name__ for c in classes]
    if len(classes) != 3 or len(set(names)) != 3:
        st.violation("untitled:class-count", "untitled object under %s[%r]: classes %s" % (position, name, names), case)
    for n in names:
        for key in judge_title(n):
            st.violation("%s:untitled" % key, "untitled object under %s[%r] gets class name %r" % (position, name, n), {**case, "class_name": n})
    try:
        text = serialize_python(*elements)
        ns = {}
        exec(compile(text, "<generated>", "exec"), ns)
        if not (ns.get("Root") == elements[0]):
            st.violation("untitled:generated-class-wrong", "untitled object under %s[%r]: generated Root differs" % (position, name), {**case, "module": text[:500]})
    except Exception as exc:
        st.violation("untitled:module-broken:%s" % type(exc).__name__, "untitled object under %s[%r]: %r" % (position, name, exc), case)


def _ascii_alnum(s):
    return any(c.isascii() and c.isalnum() for c in s)


def same_title_documents():
    """Different object schemas sharing ONE title, met in every kind of position pair; plus equal ones (must be ONE class)."""
    def o(n, title="Point"):
        return {"type": "object", "title": title, "properties": {"k%d" % n: {"type": "integer"}}}

    slots = {
        "properties": lambda a, b: {"type": "object", "title": "Root", "properties": {"x": a, "y": b}},
        "tuple-items": lambda a, b: {"type": "array", "items": [a, b]},
        "tuple+additionalItems": lambda a, b: {"type": "array", "items": [a], "additionalItems": b},
        "items+property": lambda a, b: {"type": "object", "title": "Root", "properties": {"x": {"type": "array", "items": a}, "y": b}},
        "anyOf": lambda a, b: {"anyOf": [a, b]},
        "oneOf+allOf": lambda a, b: {"oneOf": [a, {"type": "null"}], "allOf": [b]},
        "patternProperties+additionalProperties": lambda a, b: {"type": "object", "title": "Root", "patternProperties": {"^a": a}, "additionalProperties": b},
        "dependencies+contains": lambda a, b: {"dependencies": {"d": a}, "contains": b},
        "not+propertyNames": lambda a, b: {"not": a, "propertyNames": b},
        "definitions": lambda a, b: {"type": "object", "title": "Root", "properties": {"x": {"$ref": "#/definitions/a"}}, "definitions": {"a": a, "b": b}},
        "nested": lambda a, b: {"type": "object", "title": "Root", "properties": {"x": {"type": "object", "title": "Point", "properties": {"inner": a, "k9": {"type": "null"}}}, "y": b}},
    }
    out = []
    for sname, f in slots.items():
        out.append((sname + "/different", f(o(1), o(2)), 2))
        out.append((sname + "/equal", f(o(1), o(1)), 1))
        out.append((sname + "/title-casing", f(o(1, "point"), o(2, "Point")), 2))
    return out


def behavioural_same_title(st, label, doc, distinct_points):
    from statham.serializers.orderer import get_object_classes

    st.add("evaluations")
    st.add("traces")
    case = {"document": label, "doc": doc}
    try:
        elements = parse(docs.load(doc))
    except Exception as exc:
        st.violation("same-title:parse-raised:%s" % type(exc).__name__, "%s: %r" % (label, exc), case)
        return
    classes = []
    for c in get_object_classes(*elements):
        if not any(c is k for k in classes):
            classes.append(c)
    points = [c for c in classes if c.__name__.lower().startswith("point")]
    names = [c.__name__ for c in classes]
    extra = 1 if label.startswith("nested") else 0
    if len(set(names)) != len(names):
        st.violation("same-title:two-classes-one-name", "%s: distinct classes share a name: %s" % (label, names), case)
    elif len(points) != distinct_points + extra:
        st.violation("same-title:class-count", "%s: %d distinct object schemas titled Point, %d classes %s" % (label, distinct_points + extra, len(points), names), case)
    try:
        text = serialize_python(*elements)
        for n in names:
            if text.count("class %s(" % n) != 1:
                st.violation("same-title:class-defined-%d-times" % text.count("class %s(" % n), "%s: class %s" % (label, n), {**case, "module": text[:800]})
        exec(compile(text, "<generated>", "exec"), {"__builtins__": __builtins__})
    except Exception as exc:
        st.violation("same-title:module-broken:%s" % type(exc).__name__, "%s: %r" % (label, exc), case)


def category_representatives():
    reps = {}
    for cp in range(0x110000):
        c = chr(cp)
        k = (unicodedata.category(c), c.isalnum(), ("a" + c).isidentifier(), c.isidentifier())
        if k not in reps:
            reps[k] = c
    return sorted(reps.values())


def plan(tier, seed):
    step = 0x2000
    items = [("cp", lo, min(0x110000, lo + step)) for lo in range(0, 0x110000, step)]
    ss = small_strings()
    items += [("small", lo, min(len(ss), lo + 300)) for lo in range(0, len(ss), 300)]
    items += [("pairs", r, 16) for r in range(16)]
    items += [("titles", r, 8) for r in range(8)]
    return {"items": items, "chunksize": 2, "meta": {"codepoints": 0x110000, "contexts": [c[0] for c in CONTEXTS], "title_contexts": [c[0] for c in TITLE_CONTEXTS], "small_alphabet": SMALL, "small_strings": len(ss), "exhaustive": True}}


def work(item):
    st = runner.Stats()
    if item[0] == "cp":
        scan_codepoints(st, item[1], item[2], ("c",) if _TIER[0] == "quick" else ("c", "a+c+b", "c+c"))
        if item[1] == 0:
            st.sample({"codepoints": [item[1], item[2]], "contexts": [c[0] for c in CONTEXTS]})
    elif item[0] == "small":
        ss = small_strings()[item[1]:item[2]]
        for s in ss:
            st.add("states")
            st.add("transitions")
            try:
                img = _parse_attribute_name(s)
            except Exception as exc:
                st.violation("mapper-raised:%s" % type(exc).__name__, "name %r: %r" % (s, exc), {"name": s})
                continue
            if img != s:
                st.add("nontrivial")
            for key in judge_image(s, img):
                st.violation("%s:small-alphabet" % key, "property name %r maps to %r" % (s, img), {"name": s, "image": img})
            behavioural_property(st, s)
        st.sample({"names": ss[:5]})
    elif item[0] == "pairs":
        # all pairs of distinct names: strings of length <= 2 over the small alphabet + representatives
        names = [s for s in small_strings() if len(s) <= 2][:170] + category_representatives()[:40] + ["a b", "a_b", "a-b", "a.b", "class", "class_", "ﬁ", "fi", "͸", "͹"]
        n = 0
        for a, b in itertools.combinations(sorted(set(names)), 2):
            n += 1
            if n % item[2] != item[1]:
                continue
            st.add("states")
            st.add("transitions")
            behavioural_pair(st, a, b)
            if _parse_attribute_name(a) == _parse_attribute_name(b) or n % 7 == 0:
                behavioural_pair_required(st, a, b)
        st.sample({"pairs_over": len(set(names))})
    elif item[0] == "titles":
        titles = [chr(c) for c in range(0x20, 0x100)] + ["A" + chr(c) + "b" for c in range(0x20, 0x100)] + [chr(c) + "Abc" for c in range(0x20, 0x100)]
        titles += sorted(MODULE_NAMES) + [n.lower() for n in sorted(MODULE_NAMES)] + list(keyword.kwlist) + ["1abc", "123", "a1", "foo bar", "fooBar", "FooBAR", "foo_bar", "Foo-Bar", "  x  ", "x.y", "Child", "child", "T", "_", "__init__", "Élan", "naïve", "日本", "ﬁle", "Foo_²", "Foo_1", "Foo_01", "Object_1", "object_2", "é_1", "1_1", "_1", "Foo__1", "A_1_2"]
        titles += ["T" + c for c in category_representatives()]
        # suffix-shaped titles followed / interrupted by characters that regular-expression anchors are lenient about
        for c in ("\n", "\r", "\t", " ", "\x0b", "\x0c", "\x1c", "\x85", "\u2028", "\u00a0", "\u0661", "\uff11"):
            titles += ["Foo_1" + c, "Foo_" + c + "1", "Foo" + c + "_1", c + "Foo_1", "Foo_1" + c + c, "Foo_1_2" + c]
        for n, t in enumerate(titles):
            if n % item[2] != item[1]:
                continue
            st.add("states")
            st.add("transitions")
            behavioural_title(st, t)
        for n, (label, doc, k) in enumerate(same_title_documents()):
            if n % item[2] != item[1]:
                continue
            st.add("states")
            st.add("transitions")
            behavioural_same_title(st, label, doc, k)
        # untitled objects under every kind of member name (the labeller's automatic title is that name)
        members = [x for x in small_strings() if len(x) <= 2][:170] + category_representatives() + [".*", "^.*$", "^[a-z]+$", "^x-", "\\d+", "^\\$", "[$@]", "^_", "$", "$ref-ish", "é", "日本", "#", "/", "a/b", "~0", "%25"]
        for n, m in enumerate(members):
            if n % item[2] != item[1] or m in ("", "#"):
                continue  # the empty member name is not addressable by the reference resolver (json_ref_dict), see DESIGN 6
            for position in ("properties", "patternProperties"):
                if position == "patternProperties":
                    try:
                        import re as _re

                        _re.compile(m)
                    except Exception:
                        continue
                st.add("states")
                st.add("transitions")
                behavioural_untitled(st, m, position)
        # the automatic title is a fallback for titles without ASCII alphanumerics: it needs the same care
        fallback = [(t, a) for t in ("", _NO_TITLE) for a in ("auto", "Object", "a b", 5, True, 1.5, ["x"], {"a": 1}, "", "$", "é")]
        fallback += [(t, a) for t in ("é", "&", "日本", " ") for a in sorted(MODULE_NAMES) + [x.lower() for x in sorted(MODULE_NAMES)] + ["1st", "123", "a", "x y", "class", "def"]]
        for n, (t, a) in enumerate(fallback):
            if n % item[2] != item[1]:
                continue
            st.add("states")
            st.add("transitions")
            behavioural_title(st, t, a)
        docs.clear()
        st.sample({"titles": titles[:5], "count": len(titles)})
    return st


_TIER = ["quick"]


def _main():
    import os

    for i, a in enumerate(sys.argv):
        if a == "--tier" and i + 1 < len(sys.argv):
            _TIER[0] = sys.argv[i + 1]
    if os.environ.get("VERIF_TIER") and "--tier" not in sys.argv:
        _TIER[0] = os.environ["VERIF_TIER"]
    return runner.main(sys.modules[__name__])


def replay(case):
    st = runner.Stats()
    if "names" in case:
        behavioural_pair(st, case["names"][0], case["names"][1])
        behavioural_pair_required(st, case["names"][0], case["names"][1])
    elif "title" in case and "codepoint" not in case:
        behavioural_title(st, case["title"])
    elif "codepoint" in case:
        scan_codepoints(st, case["codepoint"], case["codepoint"] + 1)
    elif "name" in case:
        behavioural_property(st, case["name"])
        for key in judge_image(case["name"], _parse_attribute_name(case["name"])):
            st.violation(key, "maps to %r" % _parse_attribute_name(case["name"]), case)
    return [v for lst in st.violations.values() for _, v in lst]


if __name__ == "__main__":
    sys.exit(_main())
