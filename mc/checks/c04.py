"""C04 — an accepted value comes back complete and unaltered inside the model.

Rides on the C01 lattice enumeration: every accepted (state, value) pair is judged by
the structural embedding oracle (mc/ref/embed.py).  Plus DSL-built classes.
"""
import json
import sys

from mc import impl, lattice, runner
from mc.checks.c01 import metaschema_valid
from mc.ref import embed

PROP = "C04"
LEVEL = "model_checking"
RULE = (
    "explicit-state BFS over the schema construction lattice (same transition system as C01); in every state every value of "
    "the alphabet that the real element accepts is compared with the returned model by a structural embedding oracle "
    "(every input member present under its Python/JSON name, scalars type-identical except int->equal float under a "
    "number schema, arrays same length/order, extra members only declared defaults / not-passed); non-trivial = accepted "
    "pairs whose value is an array or object (distinct by canonical schema JSON + value)"
)
ASSUMPTIONS = [
    "which composition branch built a nested untyped object is not modelled (the oracle is branch-agnostic, i.e. weaker there)",
    "alphabets and bounds as in C01",
]


def classify(schema, value, problems, collision):
    if collision:
        return "python-name-collision"
    kws = sorted(schema) if isinstance(schema, dict) else [repr(schema)]
    return "not-embedded:" + "+".join(kws)


def visit(st, sid, schema, values, ntrans):
    if not metaschema_valid(schema):
        return
    st.add("states")
    st.add("transitions", ntrans)
    kind, el = impl.do_parse(schema)
    if kind != impl.ELEMENT:
        st.add("parse_failed")
        return
    for v in values:
        k, res = impl.do_call(el, v)
        st.add("evaluations")
        if k != impl.ACCEPT:
            st.outcome(k)
            continue
        st.add("traces")
        problems, collision = embed.check(schema, v, res, el)
        if isinstance(v, (list, dict)) and v:
            st.add("nontrivial")
        st.outcome("ACCEPT/" + ("embedded" if not problems else "not-embedded"))
        if problems:
            st.violation(classify(schema, v, problems, collision), "schema %s value %s: %s" % (json.dumps(schema, sort_keys=True)[:300], json.dumps(runner.jsonable(v))[:120], problems[0]), {"schema": schema, "value": v, "problems": problems[:5], "result": repr(res)[:300]})
    if st.c["states"] % 1499 == 1:
        st.sample({"state": list(sid), "schema": schema})


def visit_dsl(st, label, factory, values):
    from statham.serializers import serialize_json

    tree = factory()
    st.add("states")
    st.add("transitions", len(values))
    try:
        schema = serialize_json(tree)
    except Exception:
        schema = {}
    for v in values:
        k, res = impl.do_call(tree, v)
        st.add("evaluations")
        if k != impl.ACCEPT:
            st.outcome(k)
            continue
        st.add("traces")
        problems, collision = embed.check(schema, v, res, tree, parsed=False)
        if isinstance(v, (list, dict)) and v:
            st.add("nontrivial")
        st.outcome("ACCEPT/" + ("embedded" if not problems else "not-embedded"))
        if problems:
            st.violation(classify(schema, v, problems, collision) if collision else "not-embedded:dsl", "DSL tree %s value %s: %s" % (label, json.dumps(runner.jsonable(v))[:120], problems[0]), {"tree": label, "value": v, "problems": problems[:5], "result": repr(res)[:300]})


def plan(tier, seed):
    items, meta = lattice.plan_items(tier, seed)
    from mc.gen import elements as E

    ntrees = len(E.all_trees(1 if tier == "quick" else 2))
    items = [("dsl", lo, min(ntrees, lo + 25), 1 if tier == "quick" else 2) for lo in range(0, ntrees, 25)] + items
    meta["dsl_trees"] = ntrees
    if tier == "thorough":
        items = [it for it in items if it[0] != "d3" ]  # cross-group depth-3 slice left to C01
    meta["exhaustive"] = True
    from mc.gen import atoms as A

    first = [("one", i) for (i,) in A.depth1()]
    meta["first_use_states_in_pristine_processes"] = len(first)
    return {"items": items, "pristine_items": first, "meta": meta}


def inherited_names(st, label, factory):
    """The JSON name of a property is what its declaration says; a model that inherits the property without re-declaring
    it reads the same member (the check's own source of truth for JSON names of inherited properties: the declaring class)."""
    from statham.schema.elements.meta import ObjectMeta
    from statham.serializers.orderer import get_object_classes

    tree = factory()
    roots = tree if isinstance(tree, tuple) else (tree,)
    for cls in get_object_classes(*roots):
        for base in cls.__mro__[1:]:
            if not isinstance(base, ObjectMeta) or not getattr(base, "properties", None):
                continue
            for name, declared in base.properties.items():
                mine = cls.properties.get(name)
                if mine is None or mine.element is not declared.element:
                    continue  # removed or re-declared
                want = declared.source if declared.source is not None else name
                got = mine.source if mine.source is not None else name
                if got != want:
                    st.violation("inherited-property-reads-another-member", "%s: %s.%s is inherited from %s where it stands for the member %r; in %s it stands for %r" % (label, cls.__name__, name, base.__name__, want, cls.__name__, got), {"tree": label, "class": cls.__name__, "attribute": name})


def work(item):
    st = runner.Stats()
    if item[0] == "dsl":
        from mc.gen import elements as E
        from mc.gen import values as VAL

        for label, factory in E.all_trees(item[3])[item[1]:item[2]]:
            inherited_names(st, label, factory)
            visit_dsl(st, label, factory, VAL.V + VAL.V_OBJ)
        return st
    for sid, schema, values, ntrans in lattice.expand(item):
        if schema is not None:
            visit(st, sid, schema, values, ntrans)
    return st


def replay(case):
    st = runner.Stats()
    if "tree" in case:
        from mc.gen import elements as E

        fac = dict(E.all_trees(2)).get(case["tree"])
        if fac:
            visit_dsl(st, case["tree"], fac, [case["value"]])
        return [v for lst in st.violations.values() for _, v in lst]
    kind, el = impl.do_parse(case["schema"])
    if kind != impl.ELEMENT:
        return []
    k, res = impl.do_call(el, case["value"])
    if k != impl.ACCEPT:
        return []
    problems, collision = embed.check(case["schema"], case["value"], res, el)
    if problems:
        return [{"key": classify(case["schema"], case["value"], problems, collision), "what": problems[0], "case": case}]
    return []


if __name__ == "__main__":
    sys.exit(runner.main(sys.modules[__name__]))
