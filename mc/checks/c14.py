"""C14 — concurrent validation against shared models equals sequential validation.

E3: all interleavings of 2-3 real threads up to a preemption bound, each thread running real
validation calls on ONE shared element tree.  Oracle per execution: every thread's verdict and
result equal the same body run alone on a fresh tree; the tree's full snapshot is unchanged; no
deadlock; replayed prefixes never diverge.
"""
import sys
import threading
import warnings

from mc import impl, runner, sched

from statham.schema.constants import NotPassed
from statham.schema.elements import AllOf, AnyOf, Array, Element, Integer, Not, Nothing, Number, Object, OneOf, String
from statham.schema.exceptions import ValidationError
from statham.schema.property import Property

PROP = "C14"
LEVEL = "model_checking"
RULE = (
    "stateless exploration of all thread interleavings by iterative context bounding: harness = one shared element tree + 2 (3) "
    "thread bodies of 1 (2) validation calls forced to collide on the same shared objects; scheduling points = line events "
    "(or call events + backward jumps) inside statham files; every schedule with <= bound preemptions is executed to completion "
    "on real threads under a baton scheduler; oracle = each thread's verdict/result equals its sequential run on a fresh tree and "
    "the tree snapshot is unchanged; distinct = distinct schedules; non-trivial = schedules with at least one preemption"
)
ASSUMPTIONS = [
    "intra-line (bytecode-level) switches and C-extension internals (re, dateutil) are atomic steps",
    "bounds: see coverage.bounds; two preemptions at line granularity for full-length threads are not claimed",
]

warnings.simplefilter("ignore")


def call(el, value):
    try:
        res = el(value)
        return ("ACCEPT", impl.canon_result(res))
    except ValidationError as exc:
        return ("REJECT", None)
    except TypeError as exc:
        return ("TYPEERROR", None)
    except Exception as exc:  # noqa
        return ("OTHER:" + type(exc).__name__, repr(exc)[:200])


# --------------------------------------------------------------------------- harnesses
def h1():
    class Model(Object, required=["k"]):
        class_ = Property(Integer(default=2), source="class")
        b = Property(String(), required=True)

    return Model, [(Model, {"k": 1, "b": "s", "class": 3}), (Model, {"k": 1, "class": "bad"})]


def h2():
    class Par(Object, required=["k"]):
        a = Property(Integer(), required=True)

    class Chi(Par):
        b = Property(String(), required=True)

    return (Par, Chi), [(Par, {"k": 1, "a": 2}), (Chi, {"k": 1, "a": 2, "b": "s"})]


def h3():
    el = Element(properties={"a": Property(Integer(), required=True), "b_": Property(String(default="d"), source="b")}, patternProperties={"^a": Element(minimum=1), "c$": String()}, additionalProperties=False)
    return el, [(el, {"a": 2, "abc": "x"}), (el, {"a": 0})]


def h4():
    class Holder(Object):
        arr = Property(Array([Integer(), String()], additionalItems=Number()), required=True)

    return Holder, [(Holder, {"arr": [1, "a", 2, 3.5]}), (Holder, {"arr": [1, "a", "bad"]})]


def h5():
    class Leaf(Object):
        n = Property(Integer(), required=True)

    tree = AnyOf(OneOf(Leaf, String()), Not(Leaf), AllOf(Leaf, Element(minProperties=2)))
    return tree, [(tree, {"n": 1}), (tree, {"n": "x", "m": 1})]


def h6():
    shared = Array(Integer(minimum=1), minItems=1)  # one element object shared by two classes and an untyped element

    class A(Object):
        p = Property(shared, required=True)

    class B(Object, additionalProperties=shared):
        p = Property(shared)

    return (A, B), [(A, {"p": [1, 2], "q": 2}), (B, {"p": [3], "q": [0]})]


def h7():
    class Tag(Object):
        label = Property(String(), required=True)

    class Tagged(Object, default={"tags": [{"label": "dflt"}]}):
        tags = Property(Array(Tag, default=[{"label": "misc"}, {"label": "more"}]))
        meta = Property(Element(default={"k": [1, {"n": None}]}))

    return Tagged, [(Tagged, {}), (Tagged, {"meta": {"x": 1}})]


def h8():
    class Stamp(Object, default={"token": "none"}):
        token = Property(String(), required=True)

    class Envelope(Object):
        id = Property(Integer(), required=True)
        stamp = Property(Stamp, required=True)
        spare = Property(Stamp)

    return Envelope, [(Envelope, {"id": 1}), (Envelope, {"id": 2, "spare": {"token": "t"}})]


def h9():
    # an array-valued property that is not the first one: while one thread is inside the items, the other is between
    # binding its properties and building the result key of the array property
    class Post(Object):
        title = Property(String(), required=True)
        tags = Property(Array(String(minLength=1)), required=True)

    return Post, [(Post, {"title": "a", "tags": ["x"]}), (Post, {"title": "b", "tags": []})]


def h10():
    # two format checks at once: one well-formed date-time, one whose only defect is a zone name the checker's parser
    # does not know (interpreter-global state touched by a checker, e.g. warning filters, is shared between the threads)
    el = String(format="date-time")
    return el, [(el, "2020-01-01T10:00:00Z"), (el, "2020-01-01 10:00:00 EST")]


def _deep(n):
    v = 1
    for _ in range(n):
        v = [v]
    return v


def h11():
    # two failing validations whose messages mention an integer beyond the interpreter's int -> str digit limit
    # (process-wide interpreter settings touched while a message is rendered are shared between the threads)
    el = Integer(enum=[1, 10 ** 5000])
    return el, [(el, 5), (el, 7)]


def h12():
    # one value nested deeper than the interpreter's recursion limit allows, while another validation is in flight
    el = Element(items=Element(), minItems=0)
    return el, [(el, _deep(400)), (el, [1])]


def r4():
    el = Element(items=[Integer(), String()], additionalItems=Number())
    return el, [(el, [1, "a", 2]), (el, [1, 2])]


def r5():
    inner = Element(required=["n"])
    tree = AnyOf(OneOf(inner, String()), Not(inner))
    return tree, [(tree, {"n": 1}), (tree, "s")]


def r6():
    el = Element(properties={"p": Property(Integer(), required=True)})
    return el, [(el, {"p": 1}), (el, {"p": "bad"})]


def t1():
    el = Element(required=["a"], minProperties=1)
    return el, [(el, {"a": 1}), (el, {})]


def t2():
    el = Element(required=["a"], properties={"b": Property(Element(), required=True)})
    return el, [(el, {"a": 1, "b": 2}), (el, {"a": 1})]


def t3():
    class Tiny(Object, required=["k"]):
        b = Property(Element(), required=True)

    return Tiny, [(Tiny, {"k": 1, "b": 2}), (Tiny, {"b": 1})]


def h3s():
    el = Element(properties={"a": Property(Integer(), required=True)}, patternProperties={"^a": Element(minimum=1)}, additionalProperties=False)
    return el, [(el, {"a": 2}), (el, {"a": 0})]


def h5s():
    class Leaf(Object):
        n = Property(Integer(), required=True)

    tree = AnyOf(Leaf, Not(Leaf))
    return tree, [(tree, {"n": 1}), (tree, {"n": "x"})]


def h1x3():
    tree, calls = h1()
    return tree, calls + [(tree, {"b": "s"})]


def h1x2calls():
    tree, calls = h1()
    return tree, [[calls[0], (tree, {"k": 0, "b": "t"})], [calls[1], (tree, {"k": 2, "b": "u", "zz": 1})]]


HARNESSES = {"T1": t1, "T2": t2, "T3": t3, "H3s": h3s, "H5s": h5s, "H1": h1, "H2": h2, "H3": h3, "H4": h4, "H5": h5, "H6": h6, "H7": h7, "H8": h8, "H9": h9, "H10": h10, "H11": h11, "H12": h12, "R4": r4, "R5": r5, "R6": r6, "H1x3": h1x3, "H1x2": h1x2calls}


def make(hname):
    tree, calls = HARNESSES[hname]()

    def body_for(c):
        if isinstance(c, list):
            return lambda: [call(el, v) for el, v in c]
        el, v = c
        return lambda: call(el, v)

    return tree, [body_for(c) for c in calls]


_BASE = {}


def baseline(hname):
    """Sequential reference: each body alone on its own fresh tree + the pristine snapshot."""
    if hname not in _BASE:
        tree, bodies = make(hname)
        snap0 = impl.snapshot(tree)
        seq = []
        for i in range(len(bodies)):
            t, bs = make(hname)
            seq.append(bs[i]())
        _BASE[hname] = (snap0, seq)
    return _BASE[hname]


def explore_shard(st, hname, gran, bound, start, r, m, max_execs=None):
    snap0, seq = baseline(hname)
    outcomes = set()

    def make_bodies():
        tree, bodies = make(hname)
        return bodies, tree

    def check(ex, tree, schedule):
        st.add("evaluations")
        st.add("traces")
        st.add("states")
        st.add("transitions", ex.steps)
        if any(k > 0 for k in schedule):
            st.add("nontrivial")
        obs = tuple(repr(ex.results.get(i)) for i in range(len(seq)))
        outcomes.add(obs)
        for i, want in enumerate(seq):
            got = ex.results.get(i)
            if got != want:
                st.violation("concurrent-result-differs", "%s: thread %d got %s under schedule %s, alone %s" % (hname, i, str(got)[:160], sorted(schedule.items()), str(want)[:160]), {"harness": hname, "granularity": gran, "schedule": sorted(schedule.items()), "thread": i, "got": got, "sequential": want}, rank=len(schedule))
        if ex.errors:
            st.violation("thread-raised", "%s: %s" % (hname, ex.errors), {"harness": hname, "granularity": gran, "schedule": sorted(schedule.items()), "errors": ex.errors}, rank=len(schedule))
        snap = impl.snapshot(tree)
        if snap != snap0:
            st.violation("tree-changed-after-concurrent-run", "%s: element tree differs from a pristine one after schedule %s" % (hname, sorted(schedule.items())), {"harness": hname, "granularity": gran, "schedule": sorted(schedule.items())}, rank=len(schedule))

    try:
        res = sched.explore(make_bodies, check, bound, gran, base={0: start}, shard=(r, m), max_execs=max_execs)
    except sched.ScheduleDivergence as exc:
        st.violation("HARNESS:schedule-divergence", "%s: %s (nondeterminism not owned by the scheduler)" % (hname, exc), {"harness": hname, "granularity": gran})
        return
    except sched.Deadlock as exc:
        st.violation("deadlock", "%s: %s" % (hname, exc), {"harness": hname, "granularity": gran})
        return
    st.add("schedules", res["executions"])
    if res["capped"]:
        st.add("caps_hit")
    for o in outcomes:
        st.outcome("%s:%s" % (hname, o[:1] and str(o)[:120]))
    if r == 0 and start == 0:
        st.sample({"harness": hname, "granularity": gran, "bound": bound, "scheduling_points_root": res["points_root"], "executions_in_first_shard": res["executions"]})
    st.sets["maxpre:%s:%s" % (hname, gran)].add(res["max_preemptions"])


def root_points(hname, gran):
    tree, bodies = make(hname)
    return sched.run(bodies, {}, gran).steps


def determinism_probe(hname, gran):
    """Replay one non-trivial schedule twice; observations and step counts must be identical."""
    n = root_points(hname, gran)
    schedule = {n // 3: 1}
    outs = []
    for _ in range(2):
        tree, bodies = make(hname)
        ex = sched.run(bodies, schedule, gran)
        outs.append((ex.steps, repr(ex.results), ex.points))
    return outs[0] == outs[1], n


# scheduling points only where one validator / element / property hands over to the next (entry of these functions)
CALLS = ("calls", ("__call__", "__init__", "__new__", "bind", "evolve", "scoped", "property", "construct", "validate", "_validate", "__getitem__", "__properties__"))


FORMAT_LINES = ("lines", ("format.py", "string.py"))
MESSAGE_LINES = ("lines", ("exceptions.py",))
CALLS_FEW = ("calls", ("construct",))  # one point per nesting level of the value


def plan(tier, seed):
    # warm-up (regex cache, lazy imports), then determinism probes
    for h in HARNESSES:
        make(h)
        baseline(h)
    configs = []  # (harness, granularity, bound, slice) ; slice = None (complete) or number of residues of 97 explored
    if tier == "quick":
        for h in ("H1", "H2", "H6", "T2", "R4"):
            configs.append((h, "line", 1, None))
        for h in ("H3s", "H5s", "H4", "H1x3", "H7", "H8"):
            configs.append((h, "switch", 1, None))
        configs.append(("T3", "switch", 2, 6))
        configs.append(("H9", CALLS, 2, None))
        configs.append(("H10", FORMAT_LINES, 2, None))
        configs.append(("H11", MESSAGE_LINES, 2, None))
        configs.append(("H12", CALLS_FEW, 1, None))
    else:
        for h in ("H1", "H2", "H3", "H4", "H5", "H6", "H7", "H8", "H1x2", "T2", "R4", "R5", "R6"):
            configs.append((h, "line", 1, None))
        configs.append(("H1x3", "switch", 1, None))
        configs.append(("H1x3", "line", 1, None))
        configs.append(("T1", "switch", 2, None))
        configs.append(("T3", "switch", 2, None))
        configs.append(("T2", "switch", 2, None))
        configs.append(("H9", CALLS, 2, None))
        configs.append(("H9", "switch", 1, None))
        configs.append(("H4", CALLS, 2, None))
        configs.append(("H10", FORMAT_LINES, 3, None))
        configs.append(("H11", MESSAGE_LINES, 3, None))
        configs.append(("H12", CALLS_FEW, 1, None))
        configs.append(("H10", "line", 1, None))
    items = []
    meta = {"configs": [], "exhaustive": True}
    for h, gran, bound, sl in configs:
        ok, n = determinism_probe(h, gran)
        if not ok:
            raise RuntimeError("determinism probe failed for %s/%s" % (h, gran))
        nthreads = len(make(h)[1])
        m = 16 if bound == 1 else 97
        residues = list(range(m))
        if sl is not None:
            residues = sorted({(seed * 7 + k * 16) % m for k in range(sl)})
            meta["exhaustive"] = False
        for start in range(nthreads):
            for r in residues:
                items.append((h, gran, bound, start, r, m))
        meta["configs"].append({"harness": h, "granularity": gran, "preemption_bound": bound, "scheduling_points_root": n, "threads": nthreads, "start_orders": nthreads, "complete": sl is None, "first_level_slice": None if sl is None else "first preemption point index mod %d in %s (seed-rotated); all second preemptions below them" % (m, residues)})
    items.sort(key=lambda it: (-it[2], it[4]))
    return {"items": items, "meta": meta}


def work(item):
    st = runner.Stats()
    explore_shard(st, *item)
    return st


def finish(total, meta):
    return {"schedules_explored": int(total.c.get("schedules", 0)), "max_preemptions_completed": {k.split(":", 1)[1]: max(v) for k, v in total.sets.items() if k.startswith("maxpre:")}}


def replay(case):
    st = runner.Stats()
    hname, gran = case["harness"], case.get("granularity", "line")
    schedule = {int(k): int(v) for k, v in case.get("schedule", [])}
    snap0, seq = baseline(hname)
    outs = []
    for _ in range(2):
        tree, bodies = make(hname)
        ex = sched.run(bodies, schedule, gran)
        outs.append([ex.results.get(i) for i in range(len(seq))] + [impl.snapshot(tree) == snap0])
    if outs[0] != outs[1]:
        return [{"key": "HARNESS:nondeterministic-replay", "what": "same schedule, different observations", "case": case}]
    bad = [i for i, want in enumerate(seq) if outs[0][i] != want]
    if bad or not outs[0][-1]:
        return [{"key": "concurrent-result-differs" if bad else "tree-changed-after-concurrent-run", "what": "threads %s differ from sequential; tree unchanged=%s" % (bad, outs[0][-1]), "case": case}]
    return []


if __name__ == "__main__":
    sys.exit(runner.main(sys.modules[__name__]))
