"""C06 — serialize-then-parse is the identity on statham's normal form.

E1 over the schema lattice (+ document family): E1=parse(S0), S1=serialize_json(E1), E2=parse(load(S1)),
S2=serialize_json(E2); oracle S2 == S1 (type-strict, key order included), E2 == E1, third trip stable, and the
classes obtained by executing serialize_python(E1) equal the parsed ones.
"""
import json
import sys

from mc import docs, impl, lattice, runner
from mc.checks.c01 import metaschema_valid
from mc.gen import atoms as A
from mc.gen import values as VAL

from statham.schema.elements.meta import ObjectMeta
from statham.schema.parser import parse
from statham.serializers import serialize_json, serialize_python
from statham.serializers.orderer import get_object_classes

PROP = "C06"
LEVEL = "model_checking"
RULE = (
    "explicit-state enumeration of the schema lattice (all states to depth 2, every wrapper of depth<=1 states, object-core "
    "product, seed-rotated depth-3 slice; thorough adds depth 3 in groups and wrappers of depth-2 states) plus the document "
    "family; each state is pushed through parse -> serialize_json -> (real dereferencing pipeline) -> parse -> serialize_json "
    "(twice) and through serialize_python -> exec; oracle: second document identical to the first (type-strict, ordered), "
    "elements equal, generated classes equal the parsed ones; non-trivial = states whose normal form differs from the input schema"
)
ASSUMPTIONS = ["object-typed schemas carry a title; documents are served through json_ref_dict's loader from memory"]


def norm_element(x, depth=0):
    """Structural form of an element tree with statham's normal-form aliases identified: Nothing() == False == Not(Element())
    ("accept nothing"), Element() == True ("accept anything"), and an empty tuple of items == its replacement."""
    from statham.schema.constants import NotPassed
    from statham.schema.elements import Element, Not, Nothing
    from statham.schema.property import _Property

    if depth > 40:
        return "<deep>"
    if x is False or isinstance(x, Nothing):
        return "<F>"
    if x is True:
        return "<T>"
    if isinstance(x, NotPassed):
        return "<NP>"
    if isinstance(x, ObjectMeta):
        pub = {k: norm_element(v, depth + 1) for k, v in vars(x).items() if not k.startswith("_") and not callable(v) or isinstance(v, Element)}
        props = {n: (norm_element(p.element, depth + 1), p.required, p.source) for n, p in (x.properties or {}).items()}
        return ("class", x.__name__, tuple(sorted(pub.items(), key=repr)), tuple(sorted(props.items(), key=repr)))
    if isinstance(x, Element):
        if type(x) is Not and norm_element(x.element, depth + 1) == "<T>":
            return "<F>"
        items = {k: norm_element(v, depth + 1) for k, v in vars(x).items() if not k.startswith("_")}
        pd = getattr(x, "_properties", None)
        if isinstance(pd, dict):
            items["properties"] = tuple(sorted(((n, (norm_element(p.element, depth + 1), p.required, p.source)) for n, p in pd.items()), key=repr))
        if items.get("items") == ():
            # an empty tuple of items: the normal form is its replacement, "items": <the additionalItems schema>
            ai = items.get("additionalItems", "<T>")
            items["items"] = "<T>" if ai == "<NP>" else ai
            items["additionalItems"] = "<T>"
        trivial = type(x) is Element and all(v in ("<NP>", "<T>") or (k == "uniqueItems" and v == "<F>") for k, v in items.items())
        return "<T>" if trivial else ("elem", type(x).__name__, tuple(sorted(items.items(), key=repr)))
    if isinstance(x, _Property):
        return ("prop", norm_element(x.element, depth + 1), x.required, x.source)
    if isinstance(x, list):
        return tuple(norm_element(v, depth + 1) for v in x)
    if isinstance(x, dict):
        return tuple(sorted(((k, norm_element(v, depth + 1)) for k, v in x.items()), key=repr))
    if isinstance(x, bool):
        return ("bool", x)
    return (type(x).__name__, repr(x))


def parse_doc(schema):
    return parse(docs.load(schema))


def trip(st, schema, label, rank):
    st.add("states")
    try:
        e1 = parse_doc(schema)
    except Exception as exc:
        st.notes["first-parse-raised:" + type(exc).__name__] += 1
        st.outcome("unparseable")
        return
    try:
        s1 = serialize_json(*e1)
        json.dumps(s1)
    except Exception as exc:
        st.violation("serialize-raised:%s@%s" % (type(exc).__name__, impl.where(exc)), "%s: serialize_json of the parsed schema raised %r" % (label, exc), {"schema": schema}, rank)
        return
    st.add("transitions")
    try:
        e2 = parse_doc(s1)
        s2 = serialize_json(*e2)
    except Exception as exc:
        st.violation("reparse-raised:%s@%s" % (type(exc).__name__, impl.where(exc)), "%s: serialized document %s does not re-parse/serialize: %r" % (label, json.dumps(s1)[:300], exc), {"schema": schema, "s1": s1}, rank)
        return
    st.add("transitions")
    st.add("evaluations")
    st.add("traces")
    if json.dumps(s1, sort_keys=True) != json.dumps(schema, sort_keys=True):
        st.add("nontrivial")
    ok = True
    if not impl.strict_eq(s1, s2):
        ok = False
        st.violation("round-trip-differs:" + _diff_keys(s1, s2), "%s: S1=%s but S2=%s" % (label, json.dumps(s1)[:400], json.dumps(s2)[:400]), {"schema": schema, "s1": s1, "s2": s2}, rank)
    else:
        # identical documents must also mean identical behaviour (the weaker, behavioural reading of "equal element":
        # Nothing() and Not(Element()) are different objects with the same document and the same meaning)
        try:
            same = bool(e2[0] == e1[0]) or norm_element(e2[0]) == norm_element(e1[0])
        except Exception:
            same = False
        if not same:
            # (compared up to the normal-form aliases Nothing() / False / Not(Element()) and Element() / True)
            ok = False
            st.violation("reparsed-element-not-equal", "%s: parse(serialize(E1)) != E1 although the documents are identical: a keyword value the document does not carry was lost (%r vs %r)" % (label, e1[0], e2[0]), {"schema": schema, "s1": s1}, rank)
        for v in VAL.V_SMALL:
            k1, r1 = impl.do_call(e1[0], v)
            k2, r2 = impl.do_call(e2[0], v)
            if k1 != k2:
                ok = False
                st.violation("reparsed-element-behaves-differently", "%s: value %r: parsed element %s, re-parsed element %s" % (label, v, k1, k2), {"schema": schema, "s1": s1, "value": v}, rank)
                break
    # generated python classes equal parsed ones
    try:
        text = serialize_python(*e1)
        ns = {}
        exec(compile(text, "<generated>", "exec"), ns)
        for cls in get_object_classes(*e1):
            gen = ns.get(cls.__name__)
            if gen is None or not (gen == cls):
                ok = False
                st.violation("generated-class-not-equal", "%s: executing the generated module gives a class %s unequal to the parsed one" % (label, cls.__name__), {"schema": schema, "module": text[:1500]}, rank)
                break
    except Exception as exc:
        ok = False
        st.violation("generated-module-raised:%s" % type(exc).__name__, "%s: generated module failed: %r" % (label, exc), {"schema": schema}, rank)
    st.outcome("identity" if ok else "differs")


def _extra_roots(elements):
    return []


def _diff_keys(a, b, path=""):
    """Short signature of where two documents differ (for grouping)."""
    if isinstance(a, dict) and isinstance(b, dict):
        ks = sorted((set(a) ^ set(b)))
        if ks:
            return "keys:" + ",".join(ks)[:60]
        if list(a) != list(b):
            return "key-order"
        for k in a:
            if not impl.strict_eq(a[k], b[k]):
                return _diff_keys(a[k], b[k], k)
    if isinstance(a, list) and isinstance(b, list) and len(a) == len(b):
        for x, y in zip(a, b):
            if not impl.strict_eq(x, y):
                return _diff_keys(x, y, path)
    return "value-under:" + path


def extra_documents():
    """Object schemas whose annotations need care in the Python round trip, and documents with shared references."""
    from mc.checks.c07 import description_alphabet

    out = []
    for d in description_alphabet():
        out.append({"type": "object", "title": "Doc", "description": d, "properties": {"a": {"type": "integer"}}})
        out.append({"type": "array", "items": {"type": "object", "title": "Doc", "description": d}})
    for d in ("text", " x ", "a\n  b\n"):
        out.append({"type": "object", "title": "Outer", "description": d, "properties": {"p": {"$ref": "#/definitions/inner"}, "q": {"$ref": "#/definitions/inner"}}, "definitions": {"inner": {"type": "object", "title": "Inner", "description": d + "!", "properties": {"n": {"type": "number", "default": 0}}}}})
    # keywords holding an empty container next to a composition keyword: the member they form must survive or vanish
    # the same way in both serializations
    for empty in ({"properties": {}}, {"patternProperties": {}}, {"required": []}, {"dependencies": {}}, {"items": []}, {"enum": []}, {"properties": {}, "required": []}, {"type": "object", "title": "E", "properties": {}}):
        for comp in ({"not": {"type": "string"}}, {"anyOf": [{"type": "string"}, {"type": "null"}]}, {"allOf": [{"minimum": 1}]}, {"oneOf": [{"const": 1}, {"const": 2}], "not": {"const": 3}}):
            out.append({**empty, **comp})
            out.append({"type": "array", "items": {**empty, **comp}})
    shared = {"type": "string", "minLength": 1}
    for comp in ("allOf", "anyOf", "oneOf"):
        out.append({"type": "object", "title": "R", "properties": {"p": {comp: [{"$ref": "#/definitions/s"}], "default": "d"}, "q": {"$ref": "#/definitions/s"}}, "definitions": {"s": dict(shared)}})
        out.append({"type": "object", "title": "R", "properties": {"q": {"$ref": "#/definitions/s"}, "p": {comp: [{"$ref": "#/definitions/s"}, {"maxLength": 5}]}}, "definitions": {"s": dict(shared), "t": {"default": "n/a", comp: [{"title": "x"}]}}})
    return out


def family_documents(tier):
    from mc.gen import docs_family as DF

    return [(label, doc) for label, doc, extra in DF.documents(tier) if not extra]


def plan(tier, seed):
    items, meta = lattice.plan_items(tier, seed)
    nf = len(family_documents(tier))
    items = [("family", lo, min(nf, lo + 40), tier) for lo in range(0, nf, 40)] + items
    meta["family_documents"] = nf
    nd = len(extra_documents())
    items = [("extra", lo, min(nd, lo + 20)) for lo in range(0, nd, 20)] + items
    meta["extra_documents"] = nd
    if tier == "thorough":
        items = [it for it in items if it[0] not in ("d3", "wrapwrap")]
    meta["exhaustive"] = True
    mod = 8 if tier == "quick" else 8
    first = [("family", i, i + 1, tier) for i in range(nf) if i % mod == seed % mod] + [("extra", i, i + 1) for i in range(nd)]
    meta["documents_again_one_per_pristine_process"] = len(first)
    return {"items": items, "pristine_items": first, "meta": meta}


def work(item):
    st = runner.Stats()
    if item[0] == "family":
        for label, doc in family_documents(item[3])[item[1]:item[2]]:
            trip(st, doc, label, 2)
        docs.clear()
        return st
    if item[0] == "extra":
        for n, schema in enumerate(extra_documents()[item[1]:item[2]]):
            trip(st, schema, json.dumps(schema, sort_keys=True)[:200], 1)
        # a document parsed after the others must still be in normal form (no state carried between documents)
        for schema in ({"anyOf": [{"type": "integer"}, {"type": "string"}]}, {"type": ["integer", "null"]}):
            trip(st, schema, "after-others:" + json.dumps(schema), 1)
        docs.clear()
        return st
    for sid, schema, values, ntrans in lattice.expand(item):
        if schema is None or not metaschema_valid(schema) or isinstance(schema, bool):
            continue
        trip(st, schema, json.dumps(schema, sort_keys=True)[:200], len(sid))
        if st.c["states"] % 1999 == 1:
            st.sample({"state": list(sid), "schema": schema})
    docs.clear()
    return st


def replay(case):
    st = runner.Stats()
    trip(st, case["schema"], "replay", 0)
    return [v for lst in st.violations.values() for _, v in lst]


if __name__ == "__main__":
    sys.exit(runner.main(sys.modules[__name__]))
