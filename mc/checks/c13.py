"""C13 — elements always validate according to their current configuration.

E2 over histories of reconfiguration steps and validation calls.  Reference model = a
plain config dict updated by the same operations; after every step the live object's
verdict vector over a probe alphabet must equal that of a FRESH object built from the
model's current config.
"""
import copy
import sys

from mc import history, impl, runner

from statham.schema.constants import NotPassed
from statham.schema.elements import Array, Boolean, Element, Integer, Null, Number, Object, String
from statham.schema.property import Property

PROP = "C13"
LEVEL = "model_checking"
RULE = (
    "explicit-state BFS over operation histories (set keyword / add, replace, delete, wholesale-assign properties / validate "
    "probe) on 6 kinds of live objects, depth bound 3 (quick) / 4 (thorough); state = full snapshot of the live object + the "
    "reference config; in every state the verdict+result vector of the live object over a probe alphabet equals that of a "
    "freshly constructed object with the model's configuration; non-trivial = states whose verdict vector differs from the "
    "initial object's"
)
ASSUMPTIONS = ["operation alphabet as listed in the evidence; typed elements are only reconfigured through keywords their constructor accepts"]

NP = NotPassed()
PROBES = [
    NP, None, True, False, 0, 1, 2, 1.0, 1.5, "", "a", "ab", "abc", [], [1], [1, "a"], ["a"], {}, {"a": 1}, {"a": "s"}, {"a": 1, "b": 2}, {"b": 2},
    {"a": "s", "b": 2}, {"z": 1}, {"a": 1, "z": 1}, {"a": 1, "c": "s"}, {"a": 1, "c": 1}, {"a": "s", "q": "no"}, {"class": 3}, {"class": "x"}, {"class_": "x"}, {"class_": 3, "class": "x"}, {"a": 1, "b": "s", "c": True}, {"b": 7, "z": 0}, {"a": 1, "b": 2, "c": 3, "d": 4},
]

ELEMS = {
    "Integer()": lambda: Integer(),
    "String()": lambda: String(),
    "String(default='d')": lambda: String(default="d"),
    "Integer(default=1)": lambda: Integer(default=1),
    "Boolean()": lambda: Boolean(),
    "Element(minimum=2)": lambda: Element(minimum=2),
}


# --------------------------------------------------------------------------- reference model
def fresh(ref):
    kind = ref["kind"]
    kw = {k: (v() if callable(v) else copy.deepcopy(v)) for k, v in ref["kw"].items()}
    props = None
    if ref["props"] is not None:
        props = {name: Property(ELEMS[spec[0]](), required=spec[1], source=spec[2]) for name, spec in ref["props"].items()}
    if kind in ("Element", "String", "Integer", "Array"):
        cls = {"Element": Element, "String": String, "Integer": Integer, "Array": Array}[kind]
        if kind == "Array":
            items = kw.pop("items")
            return Array(items, **kw)
        if props is not None:
            kw["properties"] = props
        return cls(**kw)
    # model classes (also the flat equivalent of a subclass)
    return Object.inline(ref["name"], properties=props or {}, **kw)


def set_kw(k, label, value_factory):
    def apply(live):
        setattr(live, k, value_factory())

    def model(ref):
        v = value_factory()
        if isinstance(v, NotPassed) and k not in ("additionalProperties",):
            ref["kw"].pop(k, None)
        else:
            ref["kw"][k] = value_factory

    return history.Op("set %s=%s" % (k, label), apply, None, model)


def has_props(live):
    return isinstance(getattr(live, "properties", NP), dict)


def prop_set(name, spec):
    def apply(live):
        live.properties[name] = Property(ELEMS[spec[0]](), required=spec[1], source=spec[2])

    def model(ref):
        ref["props"][name] = spec

    return history.Op("properties[%r]=Property(%s, required=%s, source=%r)" % (name, spec[0], spec[1], spec[2]), apply, has_props, model)


def prop_update(name, spec, how):
    """Add a property through the mapping's bulk methods (update / setdefault / |=), which do not go through item assignment."""
    def apply(live):
        new = Property(ELEMS[spec[0]](), required=spec[1], source=spec[2])
        if how == "update":
            live.properties.update({name: new})
        elif how == "setdefault":
            live.properties.pop(name, None)
            live.properties.setdefault(name, new)
        else:
            live.properties |= {name: new}

    def model(ref):
        ref["props"][name] = spec

    return history.Op("properties.%s(%r: Property(%s, required=%s))" % (how, name, spec[0], spec[1]), apply, has_props, model)


def prop_all_refused(label):
    """A wholesale assignment that is refused (one member is not a Property): the configuration stays what it was."""
    def apply(live):
        try:
            live.properties = {"a": Property(String(), required=True), "q": Property(Integer()), "bad": 5}
        except Exception:
            pass

    return history.Op("properties=%s (refused)" % label, apply, has_props, None)


def prop_del(name):
    def apply(live):
        del live.properties[name]

    def model(ref):
        del ref["props"][name]

    return history.Op("del properties[%r]" % name, apply, lambda live: has_props(live) and name in live.properties, model)


def prop_all(label, specs):
    def apply(live):
        live.properties = {n: Property(ELEMS[s[0]](), required=s[1], source=s[2]) for n, s in specs.items()}

    def model(ref):
        ref["props"] = dict(specs)

    return history.Op("properties=%s" % label, apply, None, model)


def validate(v):
    def apply(live):
        impl.do_call(live, v)

    return history.Op("validate(%r)" % (v,), apply)


# payload objects that live as long as the history does: the caller validates the SAME dict again later
SHARED_ORIG = {"shared{b}": {"b": 2}, "shared{}": {}}
_SHARED = {}


def reset_shared():
    _SHARED.clear()
    _SHARED.update(copy.deepcopy(SHARED_ORIG))


def validate_shared(name):
    def apply(live):
        impl.do_call(live, _SHARED[name], copy_value=False)

    return history.Op("validate(%s, the same object again)" % name, apply)


def observer(name, fn):
    """Operations that only LOOK at the object (serializers, repr, ==): they must not change how it validates."""
    def apply(live):
        try:
            fn(live)
        except Exception:
            pass

    return history.Op(name, apply)


def _observers():
    from statham.serializers import serialize_json, serialize_python

    return [
        observer("serialize_json(obj)", lambda o: serialize_json(o)),
        observer("serialize_python(obj)", lambda o: serialize_python(o)),
        observer("repr(obj); obj == obj", lambda o: (repr(o), o == o)),
    ]


VALIDATE_OPS = [validate(v) for v in ({"a": 1}, {"a": "s", "b": 2}, "ab", 0)] + [validate_shared(n) for n in SHARED_ORIG] + _observers()

PROP_OPS = [
    prop_set("a", ("Integer()", False, None)),
    prop_set("a", ("String()", True, None)),
    prop_set("class_", ("Integer(default=1)", True, "class")),
    prop_set("class_", ("String()", True, None)),  # replaces a renamed property by one that names nothing: JSON name class_
    prop_set("a", ("Integer()", False, "b")),  # attribute a now stands for the JSON name b
    prop_set("b", ("String(default='d')", False, None)),
    prop_update("b", ("Integer()", True, None), "update"),
    prop_update("c", ("String()", True, None), "setdefault"),
    prop_all_refused("{a: String required, q: Integer, bad: 5}"),
    prop_del("a"),
    prop_del("b"),
    prop_all("{b: Integer required}", {"b": ("Integer()", True, None)}),
    prop_all("{}", {}),
]

ELEMENT_KW_OPS = [
    set_kw("minimum", "1", lambda: 1), set_kw("minimum", "NotPassed", lambda: NP),
    set_kw("maxLength", "1", lambda: 1), set_kw("maxLength", "NotPassed", lambda: NP),
    set_kw("required", "['a']", lambda: ["a"]), set_kw("required", "NotPassed", lambda: NP),
    set_kw("additionalProperties", "False", lambda: False), set_kw("additionalProperties", "True", lambda: True),
    set_kw("additionalProperties", "Integer()", lambda: Integer()),
    set_kw("const", "1", lambda: 1), set_kw("const", "NotPassed", lambda: NP), set_kw("const", "True", lambda: True),
    set_kw("enum", "[0, 1]", lambda: [0, 1]), set_kw("enum", "[False, True]", lambda: [False, True]), set_kw("enum", "NotPassed", lambda: NP),
    set_kw("items", "Integer()", lambda: Integer()), set_kw("items", "NotPassed", lambda: NP),
    set_kw("patternProperties", "{'^a': String()}", lambda: {"^a": String()}), set_kw("patternProperties", "NotPassed", lambda: NP),
    set_kw("default", "{'a': 1}", lambda: {"a": 1}), set_kw("minProperties", "2", lambda: 2),
]

STRING_KW_OPS = [
    set_kw("minLength", "2", lambda: 2), set_kw("minLength", "NotPassed", lambda: NP),
    set_kw("maxLength", "1", lambda: 1), set_kw("maxLength", "NotPassed", lambda: NP),
    set_kw("pattern", "'^a'", lambda: "^a"), set_kw("pattern", "NotPassed", lambda: NP),
    set_kw("const", "'a'", lambda: "a"), set_kw("const", "NotPassed", lambda: NP),
    set_kw("enum", "['a','ab']", lambda: ["a", "ab"]), set_kw("default", "'ab'", lambda: "ab"), set_kw("default", "NotPassed", lambda: NP),
    set_kw("format", "'uuid'", lambda: "uuid"),
]

CLASS_KW_OPS = [
    set_kw("minProperties", "2", lambda: 2), set_kw("minProperties", "NotPassed", lambda: NP),
    set_kw("maxProperties", "1", lambda: 1),
    set_kw("required", "['z']", lambda: ["z"]), set_kw("required", "NotPassed", lambda: NP),
    set_kw("additionalProperties", "False", lambda: False), set_kw("additionalProperties", "True", lambda: True),
    set_kw("additionalProperties", "Integer()", lambda: Integer()),
    set_kw("patternProperties", "{'^z': Integer()}", lambda: {"^z": Integer()}), set_kw("patternProperties", "NotPassed", lambda: NP),
    set_kw("default", "{'a': 1}", lambda: {"a": 1}), set_kw("default", "NotPassed", lambda: NP),
    set_kw("const", "{'a': 1}", lambda: {"a": 1}), set_kw("const", "NotPassed", lambda: NP),
    set_kw("dependencies", "{'a': ['b']}", lambda: {"a": ["b"]}), set_kw("propertyNames", "String(maxLength=1)", lambda: String(maxLength=1)),
]


def build_kind(kind):
    if kind == "element":
        return (lambda: (Element(), {"kind": "Element", "kw": {}, "props": None})), ELEMENT_KW_OPS + PROP_OPS[:0] + [prop_all("{a: Integer}", {"a": ("Integer()", False, None)})] + PROP_OPS + VALIDATE_OPS
    if kind == "element_props":
        def b():
            live = Element(properties={"a": Property(Integer()), "b": Property(String(), required=True)}, required=["z"])
            ref = {"kind": "Element", "kw": {"required": (lambda: ["z"])}, "props": {"a": ("Integer()", False, None), "b": ("String()", True, None)}}
            return live, ref
        return b, ELEMENT_KW_OPS + PROP_OPS + VALIDATE_OPS
    if kind == "string":
        return (lambda: (String(minLength=1), {"kind": "String", "kw": {"minLength": (lambda: 1)}, "props": None})), STRING_KW_OPS + [validate("a"), validate("abc"), validate(1)]
    if kind == "array":
        ops = [
            set_kw("items", "String()", lambda: String()), set_kw("items", "[Integer(), String()]", lambda: [Integer(), String()]),
            set_kw("additionalItems", "False", lambda: False), set_kw("additionalItems", "True", lambda: True), set_kw("additionalItems", "Integer()", lambda: Integer()),
            set_kw("minItems", "2", lambda: 2), set_kw("minItems", "NotPassed", lambda: NP), set_kw("maxItems", "1", lambda: 1), set_kw("maxItems", "NotPassed", lambda: NP),
            set_kw("uniqueItems", "True", lambda: True), set_kw("uniqueItems", "False", lambda: False), set_kw("contains", "Integer()", lambda: Integer()), set_kw("contains", "NotPassed", lambda: NP),
            validate([1]), validate([1, "a"]), validate(["a", "a"]),
        ]
        return (lambda: (Array(Integer()), {"kind": "Array", "kw": {"items": (lambda: Integer())}, "props": None})), ops
    if kind == "model":
        def b():
            class M(Object, minProperties=1):
                a = Property(Integer(), required=True)
                b = Property(String(default="d"))
            ref = {"kind": "model", "name": "M", "kw": {"minProperties": (lambda: 1)}, "props": {"a": ("Integer()", True, None), "b": ("String(default='d')", False, None)}}
            return M, ref
        return b, CLASS_KW_OPS + PROP_OPS + VALIDATE_OPS
    if kind == "model_default":
        def b():
            class M(Object, default={}, maxProperties=1):
                a = Property(Integer())
                b = Property(String(default="d"))
            ref = {"kind": "model", "name": "M", "kw": {"default": (lambda: {}), "maxProperties": (lambda: 1)}, "props": {"a": ("Integer()", False, None), "b": ("String(default='d')", False, None)}}
            return M, ref
        return b, CLASS_KW_OPS + PROP_OPS + VALIDATE_OPS + [validate(NP), set_kw("default", "{'a': 1}", lambda: {"a": 1}), set_kw("default", "{}", lambda: {})]
    if kind == "subclass":
        def b():
            class M(Object, minProperties=1, required=["k"]):
                a = Property(Integer(), required=True)
            class S(M, maxProperties=4):
                b = Property(String(default="d"))
            ref = {"kind": "model", "name": "S", "kw": {"minProperties": (lambda: 1), "required": (lambda: ["k"]), "maxProperties": (lambda: 4)}, "props": {"a": ("Integer()", True, None), "b": ("String(default='d')", False, None)}}
            return S, ref
        return b, CLASS_KW_OPS + PROP_OPS + [validate({"a": 1, "k": 0}), validate({"a": "s", "b": 2}), validate("ab")]
    raise KeyError(kind)


KINDS = ["element", "element_props", "string", "array", "model", "subclass", "model_default"]


def vector(obj):
    out = []
    for v in PROBES:
        kind, res = impl.do_call(obj, v)
        out.append((kind, impl.canon_result(res) if kind == impl.ACCEPT else None))
    return out


def canon_vec(vec):
    # class names of results may legitimately differ between live class and its fresh twin only by identity, not by name
    return vec


def run_shard(st, kind, first, depth):
    build0, ops = build_kind(kind)

    def build():
        reset_shared()
        return build0()

    live0, ref0 = build()
    vec0 = [k for k, _ in vector(live0)]

    def key(live, ref):
        return (impl.snapshot(live), repr(sorted((k, repr(v() if callable(v) else v)) for k, v in ref["kw"].items())), repr(ref["props"]), repr(impl.canon_result(_SHARED)))

    def check(live, ref, hist):
        try:
            twin = fresh(ref)
        except Exception as exc:  # the model cannot be built: harness problem, not a verdict
            st.notes["fresh-build-failed:" + type(exc).__name__] += 1
            return
        lv, tv = vector(live), vector(twin)
        st.add("evaluations", len(PROBES))
        # absolute oracle as well: a process-wide cache would mislead live object and twin alike, so the live verdicts are
        # also compared with the reference Draft-6 evaluator on the twin's serialization
        try:
            import json as _json
            from mc.ref import draft6 as R
            from statham.serializers import serialize_json

            doc = _json.loads(_json.dumps(serialize_json(twin)))
            for i, v in enumerate(PROBES):
                if isinstance(v, NotPassed):
                    continue
                mask = R.verdict(doc, v, R.STATHAM)
                accepted = lv[i][0] == impl.ACCEPT
                if not ((accepted and mask & R.V) or (not accepted and mask & R.I)):
                    st.violation("verdict-contradicts-current-configuration", "%s after %s: value %r is %s although the current configuration %s says %s" % (kind, [ops[j].name for j in hist], v, lv[i][0], _json.dumps(doc)[:200], "valid" if mask & R.V else "invalid"), {"kind": kind, "history": [ops[j].name for j in hist], "value": v, "document": doc}, rank=len(hist))
                    break
        except Exception as exc:
            st.notes["absolute-oracle-unavailable:" + type(exc).__name__] += 1
        # the payload objects the history has already validated, against pristine copies on the fresh object
        for name, orig in SHARED_ORIG.items():
            lk, lr = impl.do_call(live, _SHARED[name], copy_value=False)
            tk, tr = impl.do_call(twin, copy.deepcopy(orig))
            if (lk, impl.canon_result(lr) if lk == impl.ACCEPT else None) != (tk, impl.canon_result(tr) if tk == impl.ACCEPT else None):
                st.violation("earlier-call-influences-verdict:same-payload-object", "%s after %s: validating %s (the object validated earlier in the history, now %r) gives %s, a fresh object on a pristine copy gives %s" % (kind, [ops[j].name for j in hist], name, _SHARED[name], lk, tk), {"kind": kind, "history": [ops[j].name for j in hist], "payload": name}, rank=len(hist))
        st.add("traces")
        if [k for k, _ in lv] != vec0:
            st.add("nontrivial")
        names = [ops[i].name for i in hist]
        if lv != tv:
            diffs = [(repr(PROBES[i]), lv[i][0], tv[i][0]) for i in range(len(PROBES)) if lv[i] != tv[i]]
            only_results = all(a == b for _, a, b in diffs)
            st.violation(
                "stale-configuration" if not only_results else "result-differs-from-fresh",
                "%s after %s: live object and fresh object with the same configuration disagree on %s" % (kind, names, diffs[:3]),
                {"kind": kind, "history": names, "config": {"kw": {k: repr(v() if callable(v) else v) for k, v in ref["kw"].items()}, "props": ref["props"]}, "diffs": diffs[:6]},
                rank=len(hist),
            )
        st.outcome("len%d" % len(hist))

    if not ops[first].enabled(live0):
        return
    states, transitions, maxd, capped = history.bfs(build, ops, key, check, depth, prefix=(first,), stats=st)
    st.add("states", states)
    st.add("transitions", transitions)
    if capped:
        st.add("caps_hit")
    if first % 7 == 0:
        st.sample({"kind": kind, "first_op": ops[first].name, "ops": len(ops), "depth": depth, "states": states})


def plan(tier, seed):
    depth = 3 if tier == "quick" else 4
    items = []
    for kind in KINDS:
        _, ops = build_kind(kind)
        items += [(kind, i, depth) for i in range(len(ops))]
    return {"items": items, "meta": {"kinds": KINDS, "depth": depth, "probes": len(PROBES), "ops": {k: [o.name for o in build_kind(k)[1]] for k in KINDS}, "exhaustive": True}}


def work(item):
    st = runner.Stats()
    run_shard(st, *item)
    return st


def replay(case):
    st = runner.Stats()
    build, ops = build_kind(case["kind"])
    names = [o.name for o in ops]
    hist = tuple(names.index(n) for n in case["history"])
    live, ref = build()
    for i in hist:
        ops[i].apply(live)
        if ops[i].model:
            ops[i].model(ref)
    lv, tv = vector(live), vector(fresh(ref))
    if lv != tv:
        return [{"key": "stale-configuration", "what": "live %s vs fresh %s" % ([k for k, _ in lv], [k for k, _ in tv]), "case": case}]
    return []


if __name__ == "__main__":
    sys.exit(runner.main(sys.modules[__name__]))
