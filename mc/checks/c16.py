"""C16 — format checking consults exactly the registered checker.

(A) E2 on the process-wide registry: BFS over register(name, predicate) histories; in every reachable registry state every
    (element kind, format name, value) verdict and warning count is compared with a dict reference model.
(B) E1 over the built-ins: every canonical UUID of a boundary family and every RFC 3339 timestamp of a per-field boundary
    product must be accepted.
"""
import copy
import itertools
import sys
import warnings

from mc import history, impl, runner
from mc.ref.draft6 import is_rfc3339

from statham.schema.elements import Element, Object, String
from statham.schema.exceptions import ValidationError
from statham.schema.parser import parse_element
from statham.schema.property import Property
from statham.schema.validation.format import format_checker

PROP = "C16"
LEVEL = "model_checking"
RULE = (
    "(A) explicit-state BFS over registration histories (4 format names x 4 predicates incl. one that itself consults an unregistered format, depth 3 quick / 4 thorough = the whole "
    "reachable registry space); in every state all (5 element kinds x 4 names x 12 values) verdicts and warning counts are "
    "compared with a name->predicate reference dict; (B) exhaustive enumeration of a canonical-UUID family (every hex digit at "
    "every position, all versions/variants, upper/lower) and of the product of per-field boundary sets of RFC 3339 timestamps; "
    "non-trivial = registry states other than the initial one, plus built-in strings"
)
ASSUMPTIONS = ["second 60 is generated only at real leap-second instants; the registry is saved and restored around every history"]

NAMES = ["uuid", "date-time", "x-unregistered", "x-custom"]
class StrSub(str):
    """A string that is an instance of a proper subclass of str (str/Enum mixins, tokens ...)."""


def _raises_for_upper(s):
    if s.isupper():
        raise ZeroDivisionError("checker failed on %r" % (s,))
    return False


PREDS = {"raises_for_upper": _raises_for_upper, "always_true": lambda s: True, "always_false": lambda s: False, "is_lower": lambda s: s.islower(), "delegates_to_unregistered": lambda s: format_checker("x-inner-unregistered", s)}
INNER_WARNS = {"delegates_to_unregistered": 1}
VALUES = [StrSub("abc"), StrSub("ABC"), "abc", "ABC", "", "123e4567-e89b-12d3-a456-426614174000", "2020-02-29T23:59:59Z", "1", 1, None, True, ["abc"], {"a": "abc"}, 1.5]
_PRISTINE = dict(format_checker._callable_register)


def kinds(name):
    class Holder(Object):
        s = Property(String(format=name))

    return [
        ("String(format)", String(format=name), lambda v: v),
        ("Element(format)", Element(format=name), lambda v: v),
        ("parsed {format}", parse_element({"format": name}), lambda v: v),
        ("parsed {type:string,format}", parse_element({"type": "string", "format": name}), lambda v: v),
        ("property of model", Holder, lambda v: {"s": v}),
    ]


def call(el, v):
    with warnings.catch_warnings(record=True) as w:
        warnings.simplefilter("always")
        try:
            el(copy.deepcopy(v))
            kind = "ACCEPT"
        except ValidationError:
            kind = "REJECT"
        except TypeError:
            kind = "TYPEERROR"
        except Exception as exc:  # noqa
            kind = "OTHER:" + type(exc).__name__
    nwarn = sum(1 for x in w if issubclass(x.category, RuntimeWarning) and "No validator found for format" in str(x.message))
    return kind, nwarn


def call_strict(el, v):
    """Same call with warnings escalated to errors (python -W error / pytest filterwarnings=error)."""
    with warnings.catch_warnings():
        warnings.simplefilter("error")
        try:
            el(copy.deepcopy(v))
            return "ACCEPT"
        except ValidationError:
            return "REJECT"
        except RuntimeWarning:
            return "WARNING-RAISED"
        except TypeError:
            return "TYPEERROR"
        except Exception as exc:  # noqa
            return "OTHER:" + type(exc).__name__


def check_state(st, model, hist_names, names=None):
    for name in (names or NAMES):
        for kname, el, wrap in kinds(name):
            typed = "String" in kname or "type:string" in kname or kname == "property of model"
            for v in VALUES:
                kind, nwarn = call(el, wrap(v))
                st.add("evaluations")
                if isinstance(v, str):
                    if name in model:
                        try:
                            with warnings.catch_warnings():
                                warnings.simplefilter("ignore")
                                ok = bool(model[name][1](v))
                        except Exception as exc:
                            ok = exc
                        if isinstance(ok, Exception):
                            # a checker that raises: its exception is the caller's to see (and the checker stays registered)
                            want, want_warn = "OTHER:" + type(ok).__name__, 0
                        else:
                            want, want_warn = ("ACCEPT" if ok else "REJECT"), INNER_WARNS.get(model[name][0], 0)
                    else:
                        want, want_warn = "ACCEPT", 1
                else:
                    want_warn = 0
                    want = "REJECT" if typed else "ACCEPT"  # a non-string is rejected by the *type*, never by the format
                    if not typed and name not in model:
                        want_warn = 0
                case = {"history": hist_names, "format": name, "element": kname, "value": v, "registry": {k: m[0] for k, m in model.items()}}
                if isinstance(v, str) and name not in model and kname.startswith(("String", "Element")):
                    ks = call_strict(el, wrap(v))
                    if ks != "WARNING-RAISED":
                        st.violation("format-unregistered-under-error-filter:%s" % ks, "after %s: %s format=%r value %r with warnings escalated to errors -> %s (an unregistered format must warn, never reject)" % (hist_names, kname, name, v, ks), {**case, "observed": ks}, rank=len(hist_names))
                if kind != want:
                    key = "format-verdict:%s" % ("nonstring" if not isinstance(v, str) else ("unregistered" if name not in model else "registered"))
                    st.violation(key, "after %s: %s format=%r value %r -> %s, reference model says %s" % (hist_names, kname, name, v, kind, want), {**case, "observed": kind, "expected": want}, rank=len(hist_names))
                elif isinstance(v, str) and nwarn != want_warn:
                    st.violation("format-warning-count", "after %s: %s format=%r value %r produced %d warnings, expected %d" % (hist_names, kname, name, v, nwarn, want_warn), {**case, "warnings": nwarn}, rank=len(hist_names))
                elif not isinstance(v, str) and nwarn:
                    st.violation("format-warning-for-nonstring", "after %s: %s format=%r non-string %r produced a format warning" % (hist_names, kname, name, v), case, rank=len(hist_names))


# format names that have a close relative: another normal form, another case, surrounding blanks, a compatibility spelling
SPELLINGS = [
    ("cafe\u0301-code", "caf\u00e9-code"), ("\u212b-unit", "\u00c5-unit"), ("UUID", "uuid"), ("uuid ", "uuid"), ("\uff55\uff55\uff49\uff44", "uuid"),
    ("Date-Time", "date-time"), ("date_time", "date-time"), ("x-custom\n", "x-custom"), ("", "x-custom"),
]


def spelling_layer(st, lo, hi):
    """Every registration pattern over two near-identical names: only the exact name written in the schema counts."""
    regs = [
        {}, {0: "always_false"}, {1: "always_false"}, {0: "always_false", 1: "always_true"}, {0: "always_true", 1: "always_false"}, {0: "is_lower", 1: "always_false"},
    ]
    for pair in SPELLINGS[lo:hi]:
        for reg in regs:
            format_checker._callable_register.clear()
            format_checker._callable_register.update(_PRISTINE)
            model = {k: ("builtin:" + k, fn) for k, fn in _PRISTINE.items()}
            hist = []
            for idx, pname in sorted(reg.items()):
                format_checker.register(pair[idx])(PREDS[pname])
                model[pair[idx]] = (pname, PREDS[pname])
                hist.append("register(%r, %s)" % (pair[idx], pname))
            st.add("states")
            st.add("transitions", max(1, len(reg)))
            st.add("nontrivial")
            st.add("traces")
            check_state(st, model, hist, names=[n for n in pair if n not in _PRISTINE])
    format_checker._callable_register.clear()
    format_checker._callable_register.update(_PRISTINE)


def persistent_elements():
    class Holder(Object):
        s = Property(String(format="x-custom"))

    return {
        "String(x-custom)": (String(format="x-custom"), "x-custom", lambda v: v),
        "Element(uuid)": (Element(format="uuid"), "uuid", lambda v: v),
        "String(x-unregistered)": (String(format="x-unregistered"), "x-unregistered", lambda v: v),
        "model.s(x-custom)": (Holder, "x-custom", lambda v: {"s": v}),
        "parsed(date-time)": (parse_element({"type": "string", "format": "date-time"}), "date-time", lambda v: v),
    }


def registry_ops():
    ops = []
    for label in sorted(persistent_elements()):
        def apply(live, label=label):
            el, name, wrap = live["elements"][label]
            call(el, wrap("abc"))

        ops.append(history.Op("validate long-lived %s with 'abc'" % label, apply))
    for name in NAMES:
        for pname, pred in PREDS.items():
            def apply(live, name=name, pred=pred):
                format_checker.register(name)(pred)

            def model(ref, name=name, pname=pname, pred=pred):
                ref[name] = (pname, pred)

            ops.append(history.Op("register(%r, %s)" % (name, pname), apply, None, model))
    return ops


def run_registry(st, first, depth):
    ops = registry_ops()

    def build():
        format_checker._callable_register.clear()
        format_checker._callable_register.update(_PRISTINE)
        return {"registry": format_checker, "elements": persistent_elements()}, {k: ("builtin", v) for k, v in _PRISTINE.items()}

    def key(live, ref):
        return (tuple(sorted((k, v[0]) for k, v in ref.items())), tuple(sorted(live["registry"]._callable_register)), tuple(impl.snapshot(e[0]) for _, e in sorted(live["elements"].items())))

    def check(live, ref, hist):
        names = [ops[i].name for i in hist]
        if set(live["registry"]._callable_register) != set(ref):
            st.violation("registry-keys-differ", "after %s registry holds %s, model %s" % (names, sorted(live["registry"]._callable_register), sorted(ref)), {"history": names})
        check_state(st, ref, names)
        # elements that already validated under earlier registry states must follow the CURRENT registry as well
        for label, (el, name, wrap) in sorted(live["elements"].items()):
            for v in ("abc", "ABC", "2020-02-29T23:59:59Z"):
                kind, nwarn = call(el, wrap(v))
                st.add("evaluations")
                if name in ref:
                    with warnings.catch_warnings():
                        warnings.simplefilter("ignore")
                        try:
                            want, want_warn = ("ACCEPT" if ref[name][1](v) else "REJECT"), INNER_WARNS.get(ref[name][0], 0)
                        except Exception as exc:
                            want, want_warn = "OTHER:" + type(exc).__name__, 0
                else:
                    want, want_warn = "ACCEPT", 1
                if kind != want or nwarn != want_warn:
                    st.violation("format-stale-on-long-lived-element", "after %s: long-lived %s value %r -> %s (%d warnings), current registry says %s (%d)" % (names, label, v, kind, nwarn, want, want_warn), {"history": names, "element": label, "value": v, "observed": kind, "expected": want}, rank=len(names))
        st.add("traces")
        st.add("nontrivial")
        st.outcome("registry-state")

    try:
        states, transitions, maxd, capped = history.bfs(build, ops, key, check, depth, prefix=(first,) if first is not None else ())
    finally:
        format_checker._callable_register.clear()
        format_checker._callable_register.update(_PRISTINE)
    st.add("states", states)
    st.add("transitions", transitions)
    if first in (None, 0):
        st.sample({"registry_ops": [o.name for o in ops], "depth": depth, "states": states})


# --------------------------------------------------------------------------- built-ins
HEX = "0123456789abcdefABCDEF"
UUID_BASE = "123e4567-e89b-12d3-a456-426614174000"


def uuid_family():
    pos = [i for i, ch in enumerate(UUID_BASE) if ch != "-"]
    out = []
    for p in pos:
        for h in HEX:
            out.append(UUID_BASE[:p] + h + UUID_BASE[p + 1:])
    for ver in "012345678f":
        for var in "089abcdef":
            out.append("00000000-0000-%s000-%s000-000000000000" % (ver, var))
    out += ["00000000-0000-0000-0000-000000000000", "ffffffff-ffff-ffff-ffff-ffffffffffff", "FFFFFFFF-FFFF-FFFF-FFFF-FFFFFFFFFFFF", UUID_BASE.upper()]
    return out


LEAP_INSTANTS = ["1972-06-30", "1990-12-31", "1998-12-31", "2016-12-31"]


def timestamp_family(tier):
    years = ["0000", "0001", "1970", "2000", "2024", "9999"]
    months = ["%02d" % m for m in range(1, 13)]
    days = ["01", "28", "29", "30", "31"]
    hours = ["00", "12", "23"]
    minutes = ["00", "59"]
    seconds = ["00", "59"]
    fractions = ["", ".1", ".123456", ".123456789"]
    offsets = ["Z", "z", "+00:00", "-00:00", "+05:30", "-12:00", "+23:59"]
    seps = ["T", "t"]
    if tier == "quick":
        fractions, offsets = ["", ".123456789", ".5"], ["Z", "z", "+05:30", "-00:00", "+23:59"]
        hours = ["00", "23"]
    for y, mo, d, h, mi, s, f, o, sep in itertools.product(years, months, days, hours, minutes, seconds, fractions, offsets, seps):
        ts = "%s-%s-%s%s%s:%s:%s%s%s" % (y, mo, d, sep, h, mi, s, f, o)
        if is_rfc3339(ts):
            yield ts
    for day in LEAP_INSTANTS:
        for f in fractions:
            yield "%sT23:59:60%sZ" % (day, f)
        yield "%sT23:59:60z" % day
        yield "%st23:59:60+00:00" % day
    # offset-shifted spellings of the 2016 leap second
    yield "2017-01-01T05:29:60+05:30"
    yield "2016-12-31T15:59:60-08:00"


def classify_ts(ts):
    if ts.startswith("0000-"):
        return "date-time:year-0000"
    if ts[17:19] == "60":
        return "date-time:leap-second"
    return "date-time:rfc3339-rejected"


def run_builtin(st, which, lo, hi, tier):
    if which == "uuid":
        fam = uuid_family()[lo:hi]
        el = String(format="uuid")
        el2 = Element(format="uuid")
        for u in fam:
            st.add("states")
            st.add("transitions")
            for e in (el, el2):
                kind, _ = call(e, u)
                st.add("evaluations")
                st.add("traces")
                if kind != "ACCEPT":
                    st.violation("uuid:canonical-rejected", "canonical UUID %r -> %s" % (u, kind), {"format": "uuid", "value": u, "observed": kind})
            st.add("nontrivial")
        st.sample({"uuids": fam[:3]})
    else:
        el = String(format="date-time")
        fam = list(itertools.islice(timestamp_family(tier), lo, hi))
        for ts in fam:
            st.add("states")
            st.add("transitions")
            kind, _ = call(el, ts)
            st.add("evaluations")
            st.add("traces")
            st.add("nontrivial")
            if kind != "ACCEPT":
                st.violation(classify_ts(ts), "RFC 3339 timestamp %r -> %s" % (ts, kind), {"format": "date-time", "value": ts, "observed": kind})
        st.outcome("timestamps")
        st.sample({"timestamps": fam[:3]})


def plan(tier, seed):
    depth = 3 if tier == "quick" else 4
    nops = len(registry_ops())
    items = [("reg", f, depth) for f in range(nops)]
    nu = len(uuid_family())
    items += [("uuid", lo, min(nu, lo + 250), tier) for lo in range(0, nu, 250)]
    nt = sum(1 for _ in timestamp_family(tier))
    chunk = 4000
    items += [("ts", lo, min(nt, lo + chunk), tier) for lo in range(0, nt, chunk)]
    items += [("spell", lo, lo + 1) for lo in range(len(SPELLINGS))]
    return {"items": items, "meta": {"spellings": SPELLINGS, "registry_depth": depth, "names": NAMES, "predicates": sorted(PREDS), "values": len(VALUES), "uuids": nu, "timestamps": nt, "exhaustive": True}}


def work(item):
    st = runner.Stats()
    if item[0] == "reg":
        run_registry(st, item[1], item[2])
    elif item[0] == "spell":
        spelling_layer(st, item[1], item[2])
    elif item[0] == "uuid":
        run_builtin(st, "uuid", item[1], item[2], item[3])
    else:
        run_builtin(st, "ts", item[1], item[2], item[3])
    return st


def replay(case):
    st = runner.Stats()
    if "history" in case:
        ops = registry_ops()
        names = [o.name for o in ops]
        for f in range(len(ops)):
            if names[f] == case["history"][0]:
                run_registry(st, f, len(case["history"]))
        model = None
        try:
            pass
        finally:
            format_checker._callable_register.clear()
            format_checker._callable_register.update(_PRISTINE)
    else:
        el = String(format=case["format"])
        kind, _ = call(el, case["value"])
        if kind != "ACCEPT":
            key = classify_ts(case["value"]) if case["format"] == "date-time" else "uuid:canonical-rejected"
            return [{"key": key, "what": "%r -> %s" % (case["value"], kind), "case": case}]
    return [v for lst in st.violations.values() for _, v in lst]


if __name__ == "__main__":
    sys.exit(runner.main(sys.modules[__name__]))
