"""C05 — defaults fill omitted values and never override supplied ones.

E1 over object declarations: form x property set (plain / renamed names) x per-property (kind, default) option x
additionalProperties option x ALL subsets of supplied members; plus every element of the DSL family called with no value.
Reference model = a plain dict: supplied -> the supplied value's construction; omitted with default -> the default
converted as if supplied when valid for the schema, the raw default otherwise; omitted without default -> not-passed.
"""
import copy
import itertools
import json
import sys

from mc import impl, runner
from mc.gen import elements as E
from mc.ref.embed import plain

from statham.schema.constants import NotPassed
from statham.schema.elements import Array, Boolean, Element, Integer, Null, Number, Object, String
from statham.schema.elements.meta import ObjectClassDict, ObjectMeta
from statham.schema.property import Property

PROP = "C05"
LEVEL = "model_checking"
RULE = (
    "exhaustive product: 8 declaration forms (parsed typed, parsed untyped, DSL class, Object.inline, Element(properties=), and three of them again with a patternProperties pattern that also matches the declared names) x "
    "property sets over 3 JSON names (a, class->class_, 'a b'->a_b; each absent or one of 14 (kind, default) options: none / "
    "valid / invalid / falsy / nested-object defaults, required+default) restricted to <=2 non-trivial properties per object x 4 "
    "additionalProperties options (true, false, schema, schema with its own default) x all subsets of supplied members (+ an "
    "extra member); every case is executed and the resulting model compared member by member with a dict reference model; plus "
    "every element of the DSL family called with no value; non-trivial = cases with at least one omitted defaulted property"
)
ASSUMPTIONS = ["'valid for the property's schema' is judged by the element's own verdict on the default when supplied explicitly (differential)"]

NP = NotPassed()
NESTED_JSON = {"type": "object", "title": "Nested", "properties": {"n": {"type": "integer", "default": 3}, "m": {"type": "string"}}}


def nested_cls(default=NP):
    cd = ObjectClassDict()
    cd["n"] = Property(Integer(default=3))
    cd["m"] = Property(String())
    return ObjectMeta("Nested", (Object,), cd, default=copy.deepcopy(default))


# label, json schema, dsl factory, required, supplied value, expected plain when supplied, has default, expected plain when omitted
OPTIONS = [
    ("int", {"type": "integer"}, lambda: Integer(), False, 7, 7, False, None),
    ("int=5", {"type": "integer", "default": 5}, lambda: Integer(default=5), False, 7, 7, True, 5),
    ("int='x'(invalid)", {"type": "integer", "default": "x"}, lambda: Integer(default="x"), False, 7, 7, True, "x"),
    ("int=0", {"type": "integer", "default": 0}, lambda: Integer(default=0), False, 7, 7, True, 0),
    ("str=''", {"type": "string", "default": ""}, lambda: String(default=""), False, "s", "s", True, ""),
    ("bool=false", {"type": "boolean", "default": False}, lambda: Boolean(default=False), False, True, True, True, False),
    ("null=null", {"type": "null", "default": None}, lambda: Null(default=None), False, None, None, True, None),
    ("number=1", {"type": "number", "default": 1}, lambda: Number(default=1), False, 2, 2.0, True, 1.0),
    ("array=[]", {"type": "array", "items": {"type": "integer"}, "default": []}, lambda: Array(Integer(), default=[]), False, [1], [1], True, []),
    ("untyped={k:1}", {"default": {"k": 1}}, lambda: Element(default={"k": 1}), False, [0], [0], True, {"k": 1}),
    ("nested", NESTED_JSON, lambda: nested_cls(), False, {"n": 1}, {"n": 1}, False, None),
    ("nested={}", {**NESTED_JSON, "default": {}}, lambda: nested_cls({}), False, {"m": "q"}, {"n": 3, "m": "q"}, True, {"n": 3}),
    ("nested=5(invalid)", {**NESTED_JSON, "default": 5}, lambda: nested_cls(5), False, {"n": 1}, {"n": 1}, True, 5),
    ("required int=5", {"type": "integer", "default": 5}, lambda: Integer(default=5), True, 7, 7, True, 5),
    # compositions of trivial members only: each keeps its own default
    ("allOf[{}]=3", {"allOf": [{}], "default": 3}, lambda: Element(default=3), False, "s", "s", True, 3),
    ("untyped=[[{z:1}]]", {"default": [[{"z": 1}], {"l": [[{"y": 0}]]}]}, lambda: Element(default=[[{"z": 1}], {"l": [[{"y": 0}]]}]), False, 1, 1, True, [[{"z": 1}], {"l": [[{"y": 0}]]}]),
    ("anyOf[true]='none'", {"anyOf": [True], "default": "none"}, lambda: Element(default="none"), False, 1, 1, True, "none"),
]
NAMES = [("a", "a"), ("class", "class_"), ("a b", "a_b")]
ADDITIONAL = [
    ("true", True, lambda: True),
    ("false", False, lambda: False),
    ("schema", {"type": "integer"}, lambda: Integer()),
    ("schema+default", {"type": "integer", "default": 99}, lambda: Integer(default=99)),
]
FORMS = ["parsed-typed", "parsed-typed-labelled", "parsed-untyped", "dsl-class", "inline", "element-properties",
         "parsed-typed+pattern", "dsl-class+pattern", "element-properties+pattern"]  # +pattern: a patternProperties pattern matches every declared name as well


def build(form, props, addl):
    """props: list of (json name, py name, option index).  Returns the callable model."""
    a_label, a_json, a_dsl = addl
    form = form.replace("/first-use", "")
    pattern = form.endswith("+pattern")
    form = form.replace("+pattern", "")
    pat_json = {"^(a|class)": {}} if pattern else None
    pat_dsl = (lambda: {"^(a|class)": Element()}) if pattern else (lambda: NP)
    if form.startswith("parsed"):
        schema = {"properties": {jn: copy.deepcopy(OPTIONS[oi][1]) for jn, pn, oi in props}, "additionalProperties": copy.deepcopy(a_json)}
        if pat_json:
            schema["patternProperties"] = pat_json
        req = [jn for jn, pn, oi in props if OPTIONS[oi][3]]
        if req:
            schema["required"] = req
        if form in ("parsed-typed", "parsed-typed-labelled"):
            schema.update(type="object", title="Model")
        if form == "parsed-typed-labelled":
            # through the reference resolver and the title labeller, as the command line does
            from mc import docs
            from statham.schema.parser import parse

            el = parse(docs.load(schema))[0]
            docs.clear()
            return el
        kind, el = impl.do_parse(schema)
        if kind != impl.ELEMENT:
            raise RuntimeError("parse failed: %r" % (el,))
        return el
    mk = {pn: Property(OPTIONS[oi][2](), required=OPTIONS[oi][3], source=(jn if jn != pn else None)) for jn, pn, oi in props}
    if form == "dsl-class":
        cd = ObjectClassDict()
        for k, v in mk.items():
            cd[k] = v
        return ObjectMeta("Model", (Object,), cd, additionalProperties=a_dsl(), patternProperties=pat_dsl())
    if form == "inline":
        return Object.inline("Model", properties=mk, additionalProperties=a_dsl())
    return Element(properties=mk, additionalProperties=a_dsl(), patternProperties=pat_dsl())


def read(result, pyname):
    if isinstance(type(result), ObjectMeta):
        return getattr(result, pyname)
    return result[pyname]


def typed_plain(x):
    return impl.canon_result(plain(x) if not isinstance(x, NotPassed) else x)


def check_case(st, form, props, addl, supplied, extra, rank):
    case = {"form": form, "properties": [(jn, OPTIONS[oi][0]) for jn, pn, oi in props], "additionalProperties": addl[0], "supplied": [props[i][0] for i in supplied], "extra_member": extra}
    try:
        model = build(form, props, addl)
    except Exception as exc:
        st.notes["build-failed:" + type(exc).__name__] += 1
        return
    value = {props[i][0]: copy.deepcopy(OPTIONS[props[i][2]][4]) for i in supplied}
    if extra:
        value["zz"] = 1
    st.add("states")
    st.add("transitions")
    st.add("evaluations")
    kind, res = impl.do_call(model, value)
    st.add("traces")
    if extra and addl[0] == "false":
        if kind == impl.ACCEPT:
            st.violation("extra-member-accepted", "%s: extra member accepted although additionalProperties is false" % case, case, rank)
        st.outcome("rejected-extra")
        return
    if kind == impl.REJECT and form.startswith("parsed-untyped") and any(OPTIONS[oi][3] and i not in supplied for i, (jn, pn, oi) in enumerate(props)):
        # an untyped schema keeps its explicit Draft-6 "required" list: omitting a required member is a legitimate rejection
        # (the documented waiver for required-with-default is a "may", see C01); nothing to judge about defaults here
        st.outcome("strict-required-rejection")
        return
    if kind != impl.ACCEPT:
        st.violation("raised-on-account-of-default:%s" % kind, "%s: building from %s raised %r" % (case, value, res), {**case, "value": value, "error": repr(res)[:300]}, rank)
        return
    omitted_defaulted = False
    for i, (jn, pn, oi) in enumerate(props):
        opt = OPTIONS[oi]
        try:
            got = read(res, pn)
        except Exception as exc:
            st.violation("not-readable-under-python-name", "%s: property %r not readable as %r: %r" % (case, jn, pn, exc), {**case, "value": value}, rank)
            continue
        if i in supplied:
            want = opt[5]
            if typed_plain(got) != impl.canon_result(want):
                st.violation("supplied-value-replaced", "%s: supplied %r for %r, model holds %r" % (case, opt[4], jn, got), {**case, "value": value, "got": repr(got)}, rank)
        elif opt[6]:
            omitted_defaulted = True
            want = opt[7]
            if isinstance(got, NotPassed) or typed_plain(got) != impl.canon_result(want):
                st.violation("default-not-applied:%s" % ("renamed" if jn != pn else "plain"), "%s: omitted %r should expose default %r (converted as if supplied), model holds %r" % (case, jn, want, got), {**case, "value": value, "got": repr(got), "want": repr(want)}, rank)
            if opt[0].startswith("nested={}") and not isinstance(type(got), ObjectMeta):
                st.violation("default-not-converted", "%s: valid object default for %r was not converted to its model: %r" % (case, jn, got), {**case, "value": value}, rank)
        else:
            if not isinstance(got, NotPassed):
                st.violation("invented-value", "%s: omitted %r without default holds %r instead of the not-passed marker" % (case, jn, got), {**case, "value": value, "got": repr(got)}, rank)
    if extra:
        try:
            if res["zz"] != 1:
                st.violation("extra-member-altered", "%s: extra member came back as %r" % (case, res["zz"]), case, rank)
        except Exception as exc:
            st.violation("extra-member-lost", "%s: %r" % (case, exc), case, rank)
    if omitted_defaulted and all(OPTIONS[oi][0].find("invalid") < 0 for jn, pn, oi in props):
        before = impl.canon_result(res)
        if scribble(res):
            k2, res2 = impl.do_call(model, value)
            if k2 != impl.ACCEPT or impl.canon_result(res2) != before:
                st.violation("default-shared-with-earlier-result", "%s: after the owner of the first result edited it in place, building again from %s gives %r" % (case, value, res2), {**case, "value": value}, rank)
    if omitted_defaulted:
        st.add("nontrivial")
    st.outcome("ok")


def prop_sets():
    """Each of the 3 names absent or carrying one option; at most 2 'rich' (non-first) options per object to bound the product."""
    n = len(OPTIONS)
    out = []
    for combo in itertools.product(range(-1, n), repeat=3):
        if all(c < 0 for c in combo):
            continue
        present = [c for c in combo if c >= 0]
        if len(present) == 3 and sum(1 for c in present if c != 0) > 2:
            continue
        out.append(combo)
    return out


def scribble(x, depth=0):
    """Edit every container of a result in place, the way its owner may (append to lists, add a member to plain mappings)."""
    n = 0
    if depth > 6:
        return 0
    if isinstance(x, list):
        for i in list(x):
            n += scribble(i, depth + 1)
        x.append("<scribbled>")
        return n + 1
    if isinstance(x, dict):
        for i in list(x.values()):
            n += scribble(i, depth + 1)
        try:
            x["<scribbled>"] = 1
            n += 1
        except Exception:
            pass
        return n
    d = getattr(x, "_dict", None)
    if isinstance(d, dict):
        for i in list(d.values()):
            n += scribble(i, depth + 1)
    return n


def no_value_cases(st, lo, hi):
    trees = E.all_trees(2)
    for label, factory in trees[lo:hi]:
        el = factory()
        st.add("states")
        st.add("transitions")
        st.add("evaluations")
        d = getattr(el, "default", NP)
        kind, res = impl.do_call(el, NP)
        st.add("traces")
        case = {"tree": label, "default": repr(d)}
        if kind != impl.ACCEPT:
            st.violation("no-value-call-raised:%s" % kind, "%s called with no value raised %r" % (label, res), case)
            continue
        if isinstance(d, NotPassed):
            if not isinstance(res, NotPassed):
                st.violation("no-value-invented", "%s has no default but returned %r when called with no value" % (label, res), case)
            continue
        st.add("nontrivial")
        k2, r2 = impl.do_call(factory(), copy.deepcopy(d))
        if k2 == impl.ACCEPT:
            # a valid default is converted as if supplied, so what one caller does to ITS result afterwards cannot
            # reach the next caller: scribble over the first result, ask again
            before = impl.canon_result(res)
            if scribble(res):
                k3, r3 = impl.do_call(el, NP)
                if k3 != impl.ACCEPT or impl.canon_result(r3) != before:
                    st.violation("no-value-default-shared-with-earlier-result", "%s: default %r; after the first caller edited its own result in place, calling with no value again gives %r" % (label, d, r3), case)
                res = r3 if k3 == impl.ACCEPT else res
            if impl.canon_result(res) != impl.canon_result(r2):
                st.violation("no-value-default-not-converted", "%s: default %r is valid; called with no value gives %r, supplied explicitly gives %r" % (label, d, res, r2), case)
        else:
            if impl.canon_result(res) != impl.canon_result(d):
                st.violation("no-value-invalid-default-altered", "%s: invalid default %r should be returned as is, got %r" % (label, d, res), case)
        st.outcome("no-value")


def default_class_family():
    """(label, factory -> dict of classes).  Parent/child classes with class-level defaults, incl. falsy and inherited ones."""
    def fam(parent_default, child_default):
        def f():
            cd = ObjectClassDict()
            cd["a"] = Property(Integer(default=1))
            cd["z"] = Property(String(default="zz"))
            cd["kind_"] = Property(String(default="k"), source="kind")
            kw = {} if parent_default is NP else {"default": copy.deepcopy(parent_default)}
            parent = ObjectMeta("Par", (Object,), cd, **kw)
            cd2 = ObjectClassDict()
            cd2["class_"] = Property(Integer(default=4), source="class")
            kw2 = {} if child_default is NP else {"default": copy.deepcopy(child_default)}
            child = ObjectMeta("Chi", (parent,), cd2, **kw2)
            cd3 = ObjectClassDict()
            cd3["base"] = Property(parent)
            cd3["sub"] = Property(child)
            holder = ObjectMeta("Holder", (Object,), cd3)
            cd4 = ObjectClassDict()
            cd4["sub"] = Property(child)
            cd4["base"] = Property(parent)
            holder2 = ObjectMeta("Holder2", (Object,), cd4)
            return {"parent": parent, "child": child, "holder": holder, "holder2": holder2}

        return f

    out = []
    for pd in (NP, {}, {"a": 5}, {"a": "bad"}, 0, None):
        for cdft in (NP, {}, {"class": 9}, {"a": 2, "z": "q"}):
            out.append(("parent default=%r, child default=%r" % (pd, cdft), fam(pd, cdft), pd, cdft))
    return out


def expected_no_value(cls_default, own_props_defaults):
    """Reference model for calling a model class with no value."""
    if isinstance(cls_default, NotPassed):
        return ("NotPassed",)
    return None


def novalue_sequences(st, lo, hi):
    import itertools as it

    fams = default_class_family()[lo:hi]
    calls = ["parent", "child", "holder", "holder2"]
    for label, fac, pd, cdft in fams:
        # baseline: each call alone on a fresh family
        alone = {}
        for c in calls:
            classes = fac()
            k, r = impl.do_call(classes[c], NP if c in ("parent", "child") else {})
            alone[c] = (k, impl.canon_result(r) if k == impl.ACCEPT else None, type(r).__name__)
            st.add("evaluations")
            case = {"family": label, "sequence": [c]}
            if k != impl.ACCEPT:
                st.violation("no-value-call-raised:%s" % k, "%s: %s() raised %r" % (label, c, r), case)
                continue
            eff = cdft if (c == "child" and cdft is not NP) else pd
            if c in ("parent", "child"):
                want_cls = classes[c]
                if isinstance(eff, NotPassed):
                    if not isinstance(r, NotPassed):
                        st.violation("no-value-invented", "%s: %s has no default but %s() returned %r" % (label, c, c, r), case)
                else:
                    k2, r2 = impl.do_call(fac()[c], copy.deepcopy(eff))
                    if k2 == impl.ACCEPT:
                        if not isinstance(r, want_cls) or impl.canon_result(r) != impl.canon_result(r2):
                            st.violation("no-value-default-not-converted:class", "%s: %s() should equal %s(%r) = %r, got %r" % (label, c, c, eff, r2, r), case)
                    elif impl.canon_result(r) != impl.canon_result(eff):
                        st.violation("no-value-invalid-default-altered:class", "%s: %s() should return the invalid default %r as is, got %r" % (label, c, eff, r), case)
        # inherited renamed property: supplied under its JSON name it must win over the default, in parent and child alike
        for c in ("parent", "child"):
            classes = fac()
            k, r = impl.do_call(classes[c], {"kind": "supplied", "a": 7})
            st.add("evaluations")
            if k != impl.ACCEPT or getattr(r, "kind_", None) != "supplied" or getattr(r, "a", None) != 7:
                st.violation("supplied-value-replaced:inherited-renamed", "%s: %s({'kind': 'supplied', 'a': 7}) -> %s %r" % (label, c, k, r), {"family": label, "sequence": [c + "({'kind': 'supplied'})"]})
        # histories of length 2 and 3 on ONE family: every later call must behave as it does alone
        for seq in list(it.permutations(calls, 2)) + [("parent", "child", "holder"), ("holder", "child", "parent"), ("child", "parent", "child"), ("parent", "parent", "child")]:
            classes = fac()
            st.add("states")
            st.add("transitions", len(seq))
            st.add("nontrivial")
            results = []
            for c in seq:
                k, r = impl.do_call(classes[c], NP if c in ("parent", "child") else {})
                st.add("evaluations")
                st.add("traces")
                got = (k, impl.canon_result(r) if k == impl.ACCEPT else None, type(r).__name__)
                if got != alone[c]:
                    st.violation("no-value-history-dependent", "%s: after %s, %s() gives %s %s, alone it gives %s %s" % (label, list(seq[: len(results)]), c, got[2], str(got[1])[:120], alone[c][2], str(alone[c][1])[:120]), {"family": label, "sequence": list(seq)})
                if k == impl.ACCEPT and any(r is prev for prev in results if isinstance(type(prev), ObjectMeta)):
                    st.violation("no-value-shared-instance", "%s: two no-value calls returned the very same model object" % label, {"family": label, "sequence": list(seq)})
                results.append(r)
        st.outcome("novalue-sequences")


def plan(tier, seed):
    sets = prop_sets()
    items = []
    chunk = 60
    for fi in range(len(FORMS)):
        for lo in range(0, len(sets), chunk):
            items.append(("decl", fi, lo, min(len(sets), lo + chunk)))
    ntrees = len(E.all_trees(2))
    items += [("novalue", lo, min(ntrees, lo + 300)) for lo in range(0, ntrees, 300)]
    nf = len(default_class_family())
    items += [("novalueseq", lo, min(nf, lo + 3)) for lo in range(0, nf, 3)]
    # first use: every ordered pair of options, each in a process that has imported the library and done nothing else
    # (module-level state of the library as after import; later parses in a long-lived worker can mask a first-use fault)
    first = [("first", form, oi, oj) for form in ("parsed-typed", "parsed-untyped", "dsl-class") for oi in range(len(OPTIONS)) for oj in range(len(OPTIONS)) if OPTIONS[oi][6] or OPTIONS[oj][6]]
    return {"items": items, "pristine_items": first, "meta": {"first_use_pairs_in_pristine_processes": len(first), "forms": FORMS, "options": [o[0] for o in OPTIONS], "names": NAMES, "additionalProperties": [a[0] for a in ADDITIONAL], "property_sets": len(sets), "no_value_trees": ntrees, "exhaustive": True}}


def work(item):
    st = runner.Stats()
    if item[0] == "first":
        _, form, oi, oj = item
        props = [("a", "a", oi), ("class", "class_", oj)]
        for supplied in ((), (0,), (1,), (0, 1)):
            if any(OPTIONS[p[2]][3] and not OPTIONS[p[2]][6] and i not in supplied for i, p in enumerate(props)):
                continue
            check_case(st, form + "/first-use", props, ADDITIONAL[0], supplied, False, 0)
        return st
    if item[0] == "novalueseq":
        novalue_sequences(st, item[1], item[2])
        st.sample({"class_default_families": [f[0] for f in default_class_family()[item[1]:item[2]]]})
        return st
    if item[0] == "novalue":
        no_value_cases(st, item[1], item[2])
        st.sample({"no_value_trees": [l for l, _ in E.all_trees(2)[item[1]:item[1] + 3]]})
        return st
    form = FORMS[item[1]]
    sets = prop_sets()[item[2]:item[3]]
    for combo in sets:
        props = [(NAMES[i][0], NAMES[i][1], oi) for i, oi in enumerate(combo) if oi >= 0]
        for addl in ADDITIONAL:
            idx = list(range(len(props)))
            for r in range(len(idx) + 1):
                for supplied in itertools.combinations(idx, r):
                    # a required property without default must be supplied for the call to be accepted
                    check_case(st, form, props, addl, set(supplied), False, rank=len(props))
            check_case(st, form, props, addl, set(), True, rank=len(props))
    st.sample({"form": form, "property_set": [(NAMES[i][0], OPTIONS[oi][0]) for i, oi in enumerate(sets[0]) if oi >= 0]})
    return st


def replay(case):
    st = runner.Stats()
    if "family" in case:
        labels = [f[0] for f in default_class_family()]
        i = labels.index(case["family"])
        novalue_sequences(st, i, i + 1)
        return [v for lst in st.violations.values() for _, v in lst]
    if "tree" in case:
        trees = E.all_trees(2)
        idx = [i for i, (l, _) in enumerate(trees) if l == case["tree"]]
        if idx:
            no_value_cases(st, idx[0], idx[0] + 1)
    else:
        labels = [o[0] for o in OPTIONS]
        props = [(jn, dict(NAMES)[jn], labels.index(ol)) for jn, ol in case["properties"]]
        addl = [a for a in ADDITIONAL if a[0] == case["additionalProperties"]][0]
        supplied = {i for i, p in enumerate(props) if p[0] in case["supplied"]}
        check_case(st, case["form"], props, addl, supplied, case.get("extra_member", False), 0)
    return [v for lst in st.violations.values() for _, v in lst]


if __name__ == "__main__":
    sys.exit(runner.main(sys.modules[__name__]))
