"""C09 — code generation and serialization are deterministic across processes and hash seeds.

E4: the document family is generated in separate interpreter processes, one per element of an enumerated
configuration space (iteration orders of hash-ordered string sets realised by concrete PYTHONHASHSEEDs; forward and
reverse batch order inside each process; thorough: every document alone in a fresh process and a subset through the
real command line).  Oracle: the generated module text, json.dumps(serialize_json(...)) and the class-name list of
every document are byte-identical across all configurations.
"""
import hashlib
import json
import os
import shutil
import subprocess
import sys
import tempfile

from mc import procs, runner
from mc.gen import docs_family as DF

PROP = "C09"
LEVEL = "model_checking"
RULE = (
    "configuration-space enumeration: probe panel = the library's own hash-ordered set of composition keywords (all 3! orders "
    "must be realised) + 2/3-element sets of keyword names, property names and titles of the document family; PYTHONHASHSEEDs "
    "are searched until every permutation of every probe set is realised (cap stated); one interpreter process per selected "
    "seed generates Python module, JSON serialization and class names of EVERY document of the family, forward then in reverse "
    "order; all outputs must be byte-identical across processes and passes; distinct = (document, configuration); non-trivial = "
    "documents with at least one object class"
)
ASSUMPTIONS = ["exhaustive over iteration orders of the probe sets, not over the 2^32 seeds", "address-ordered (non-string) sets vary per process anyway and are therefore exercised by every pair of processes"]

PROBE_SETS = [
    ["anyOf", "oneOf", "allOf"],
    ["anyOf", "oneOf"], ["oneOf", "allOf"], ["anyOf", "allOf"], ["anyOf", "not"],
    ["properties", "required", "type"], ["items", "additionalItems"], ["patternProperties", "additionalProperties", "propertyNames"],
    ["a", "b"], ["a", "b", "c"], ["a b", "a_b", "class"], ["n", "l", "f"], ["p", "q"], ["p1", "p2", "arr"], ["u", "v"], ["k", "c"],
    ["Alpha", "Beta", "Root"], ["Dup", "Root"], ["title", "description", "default"], ["definitions", "properties"],
    ["Integer", "String", "Object"], ["Array", "Element", "AnyOf"], ["Any", "List", "Union"], ["unit price", "unit-price"], ["x", "y", "z"],
]

# extra documents aimed at hash-order sensitivity: several undeclared required names, equally titled objects under every composition keyword
def _part(n, title="Part"):
    return {"type": "object", "title": title, "properties": {"k%d" % n: {"type": "integer"}}}


EXTRA_DOCS = [
    # several schema-valued dependencies; same-titled, different objects under each of the sub-schema keywords of ONE schema
    ("several-schema-dependencies", {"type": "object", "title": "Deps", "dependencies": {"zeta": _part(1, "Extra"), "alpha": _part(2, "Extra"), "mid": {"required": ["q"]}, "beta": _part(3, "Extra"), "omega": True, "list": ["zeta"]}}, None),
    ("same-title-under-every-subschema-keyword", {"type": "object", "title": "Holder", "properties": {"p": _part(1)}, "patternProperties": {"^x": _part(2)}, "propertyNames": {"anyOf": [_part(3), {"type": "string"}]}, "dependencies": {"d": _part(4)}, "additionalProperties": _part(5), "items": _part(6), "contains": _part(7), "additionalItems": _part(8)}, None),
    ("same-title-untyped-every-keyword", {"items": [_part(1), _part(2)], "additionalItems": _part(3), "contains": _part(4), "properties": {"a": _part(5), "b": _part(6)}, "patternProperties": {"^z": _part(7), "^y": _part(8)}, "dependencies": {"u": _part(9), "t": _part(10)}, "propertyNames": {"not": _part(11)}}, None),
    # compositions whose members are all trivial, with and without a default; and compositions with one trivial member
    ("trivial-compositions-with-defaults", {"type": "object", "title": "Triv", "properties": {"a": {"allOf": [{}, True], "default": {"k": 1}}, "b": {"anyOf": [{}], "default": 0}, "c": {"oneOf": [True], "default": "s"}, "d": {"not": False, "default": []}}}, None),
    ("compositions-with-one-trivial-member", {"type": "object", "title": "Semi", "properties": {"a": {"anyOf": [True]}, "b": {"allOf": [{"type": "string"}, {}]}, "c": {"oneOf": [{}, {"type": "null"}]}, "d": {"anyOf": [{}, {"type": "integer"}], "allOf": [True]}}}, None),
    ("root-trivial-composition-default", {"allOf": [True], "anyOf": [{}], "default": None}, None),
    ("required-undeclared", {"type": "object", "title": "R", "required": ["unit-price", "unit price", "z", "y", "x", "b", "a"], "properties": {"a": {"type": "integer"}}}, None),
    ("same-title-under-all-compositions", {"type": "object", "title": "Root", "anyOf": [{"type": "object", "title": "Same", "properties": {"a": {"type": "integer"}}}], "oneOf": [{"type": "object", "title": "Same", "properties": {"b": {"type": "string"}}}, {"type": "null"}], "allOf": [{"type": "object", "title": "Same", "properties": {"c": {"type": "null"}}}]}, None),
    ("untitled-under-all-compositions", {"type": "object", "anyOf": [{"type": "object", "properties": {"a": {}}}], "oneOf": [{"type": "object", "properties": {"b": {}}}], "allOf": [{"type": "object", "properties": {"c": {}}}], "not": {"type": "object", "properties": {"d": {}}}}, None),
    ("many-element-kinds", {"type": "object", "title": "Kinds", "properties": {"a": {"type": "integer"}, "b": {"type": "string"}, "c": {"type": "number"}, "d": {"type": "boolean"}, "e": {"type": "null"}, "f": {"type": "array", "items": {"anyOf": [{"type": "integer"}, {"not": {"type": "string"}}]}}, "g": {"oneOf": [{"type": "integer"}, {"type": "string"}]}, "h": {"allOf": [{"minimum": 1}, {"maximum": 2}]}, "i": False}}, None),
    ("untitled-root-items", {"type": "array", "items": {"type": "object", "properties": {"a": {"type": "integer"}}}}, None),
    ("untitled-root-items-2", {"type": "array", "items": {"type": "object", "properties": {"b": {"type": "string"}}}}, None),
    ("untitled-root-anyOf", {"anyOf": [{"type": "object", "properties": {"a": {}}}, {"type": "object", "properties": {"b": {}}}]}, None),
    ("untitled-root-anyOf-2", {"anyOf": [{"type": "object", "properties": {"c": {}}}, {"type": "array", "items": [{"type": "object"}]}]}, None),
    ("siblings-sharing-one-dependency", {"type": "object", "title": "Root", "properties": {n: {"$ref": "#/definitions/%s" % n} for n in ("zeta", "alpha", "mid", "beta", "omega", "kappa")}, "definitions": {**{n: {"type": "object", "title": n.capitalize(), "properties": {"shared": {"$ref": "#/definitions/shared"}, "own": {"type": "string"}}} for n in ("zeta", "alpha", "mid", "beta", "omega", "kappa")}, "shared": {"type": "object", "title": "Shared", "properties": {"leaf": {"$ref": "#/definitions/leaf"}}}, "leaf": {"type": "object", "title": "Leaf"}}}, None),
    ("two-layers-of-siblings", {"type": "object", "title": "Top", "properties": {"l": {"type": "array", "items": {"anyOf": [{"$ref": "#/definitions/%s" % n} for n in ("w", "x", "y", "z")]}}}, "definitions": {**{n: {"type": "object", "title": "Node" + n.upper(), "properties": {"c": {"$ref": "#/definitions/core"}}} for n in ("w", "x", "y", "z")}, "core": {"type": "object", "title": "Core"}}}, None),
    ("many-required", {"type": "object", "title": "Req", "properties": {n: {"type": "integer"} for n in ("zeta", "alpha", "mid", "beta", "omega")}, "required": ["omega", "alpha", "zeta", "beta", "mid"]}, None),
    ("dependencies-and-patterns", {"type": "object", "title": "Dep", "dependencies": {"z": ["a"], "a": ["z"], "m": {"required": ["q"]}}, "patternProperties": {"^z": {"type": "integer"}, "^a": {"type": "string"}, "m$": {"type": "null"}}}, None),
]


def family(tier):
    if tier == "thorough":
        # the quick family plus every third document of the full payload product (the full product is C02's business)
        quick = DF.documents("quick")
        labels = {l for l, _, _ in quick}
        more = [d for n, d in enumerate(DF.documents("thorough")) if d[0] not in labels and n % 3 == 0]
        return quick + more + EXTRA_DOCS
    return DF.documents(tier) + EXTRA_DOCS


# --------------------------------------------------------------------------- worker process
def generate_all(tier, order, only=None, part=(0, 1)):
    from json_ref_dict import RefDict, materialize
    from mc import docs
    from statham.__main__ import main
    from statham.titles import title_labeller
    from statham.schema.parser import parse, parse_element
    from statham.serializers import serialize_json, serialize_python
    from statham.serializers.orderer import get_object_classes

    fam = family(tier)
    idx = [i for i in range(len(fam)) if i % part[1] == part[0]]
    if only is not None:
        idx = [only]
    if order == "reverse":
        idx = idx[::-1]
    elif order == "rotated":
        k = len(idx) // 2
        idx = idx[k:][::-1] + idx[:k]
    out = {}
    for i in idx:
        label, doc, extra = fam[i]
        try:
            name = "root.json" if extra else ("root.json", "inventory.json", "orders.json")[i % 3]
            uri = docs.put(doc, extra, name=name)
            text = main(uri + "#/")
            elements = parse(materialize(RefDict.from_uri(docs.put(doc, extra, name=name) + "#/"), context_labeller=title_labeller()))
            js = json.dumps(serialize_json(*elements))
            names = [c.__name__ for c in get_object_classes(*elements)]
            # the public single-element entry point, called without an explicit parse state
            direct = parse_element(materialize(RefDict.from_uri(docs.put(doc, extra, name=name) + "#/"), context_labeller=title_labeller()))
            out[str(i)] = {"py": text, "json": js, "names": names, "direct_py": serialize_python(direct), "direct_json": json.dumps(serialize_json(direct))}
        except Exception as exc:
            out[str(i)] = {"py": "EXC %s: %s" % (type(exc).__name__, exc), "json": "", "names": []}
        if i % 200 == 0:
            docs.clear()
    return out


def worker_main(argv):
    tier, outfile = argv[0], argv[1]
    only = int(argv[2]) if len(argv) > 2 and argv[2] != "-" else None
    first = argv[3] if len(argv) > 3 else "forward"
    part = (int(argv[4]), int(argv[5])) if len(argv) > 5 else (0, 1)
    # the order of the two passes differs between processes: state carried from one document to the next (a module-level
    # cache, a mutated shared default) then shows up as a difference between processes
    second = {"forward": "reverse", "reverse": "forward", "rotated": "forward"}[first]
    res = {first: generate_all(tier, first, only, part)}
    if only is None:
        res[second] = generate_all(tier, second, None, part)
    with open(outfile, "w") as fh:
        json.dump(res, fh)


def digest(entry):
    return hashlib.sha1(json.dumps(entry, sort_keys=True).encode()).hexdigest()


# --------------------------------------------------------------------------- check
_SCRATCH = [None]


def plan(tier, seed):
    import multiprocessing

    with multiprocessing.get_context("fork").Pool(16) as pool:
        seeds, cov = procs.select_seeds(PROBE_SETS, must_cover={0}, search=range(0, 160 if tier == "quick" else 400), cap=6 if tier == "quick" else 14, pool=pool)
    scratch = tempfile.mkdtemp(prefix="verif_c09_")
    _SCRATCH[0] = scratch
    nparts = 2 if len(seeds) <= 8 else 1
    items = [("seed", s, tier, scratch, ("forward", "reverse", "rotated")[n % 3], k, nparts) for n, s in enumerate(seeds) for k in range(nparts)]
    nfam = len(family(tier))
    if tier == "thorough":
        items += [("alone", lo, min(nfam, lo + 40), tier, scratch) for lo in range(0, nfam, 40)]  # every 4th document, see work()
        items += [("cli", tier, scratch)]
    return {"items": items, "meta": {"seeds": seeds, "probe_sets": len(PROBE_SETS), **cov, "documents": nfam, "passes_per_process": "two passes per process; the first pass is forward, reverse or rotated depending on the process", "scratch": scratch, "exhaustive": bool(cov["must_cover_complete"])}}


def run_worker(seed, tier, outfile, only=None, first="forward", part=(0, 1)):
    env = procs.env_for(seed, None)
    cmd = [sys.executable, "-m", "mc.checks.c09", "--worker", tier, outfile, str(only) if only is not None else "-", first, str(part[0]), str(part[1])]
    r = subprocess.run(cmd, env=env, capture_output=True, text=True, cwd=runner.VERIF)
    if r.returncode != 0:
        raise RuntimeError("worker failed: %s" % r.stderr[-500:])
    with open(outfile) as fh:
        return json.load(fh)


def work(item):
    st = runner.Stats()
    if item[0] == "seed":
        _, seed, tier, scratch, first, k, nparts = item
        outfile = os.path.join(scratch, "seed_%d_%d.json" % (seed, k))
        res = run_worker(seed, tier, outfile, first=first, part=(k, nparts))
        for pas in sorted(res):
            for i, entry in res[pas].items():
                st.sets["d"].add((int(i), "seed%d/%s" % (seed, pas), digest(entry)))
                st.add("evaluations")
                st.add("traces")
                if entry["names"]:
                    st.add("nontrivial")
        st.add("states", len(res[first]))
        st.add("transitions", 2 * len(res[first]))
        st.sample({"seed": seed, "first_pass": first, "documents": len(res[first])})
    elif item[0] == "alone":
        _, lo, hi, tier, scratch = item
        for i in range(lo, hi):
            if i % 4:
                continue
            outfile = os.path.join(scratch, "alone_%d.json" % i)
            res = run_worker(7 + i % 3, tier, outfile, only=i)
            entry = res["forward"][str(i)]
            st.sets["d"].add((i, "alone", digest(entry)))
            st.add("evaluations")
            st.add("states")
            st.add("transitions")
            os.unlink(outfile)
    elif item[0] == "cli":
        _, tier, scratch = item
        fam = family(tier)
        d = os.path.join(scratch, "cli")
        os.makedirs(d, exist_ok=True)
        for i in range(0, len(fam), max(1, len(fam) // 40)):
            label, doc, extra = fam[i]
            sub = os.path.join(d, str(i))
            os.makedirs(sub, exist_ok=True)
            with open(os.path.join(sub, "root.json"), "w") as fh:
                json.dump(doc, fh)
            for fn, dd in (extra or {}).items():
                with open(os.path.join(sub, fn), "w") as fh:
                    json.dump(dd, fh)
            outs = []
            for seed in (0, 1, 2):
                r = subprocess.run([sys.executable, "-m", "statham", "--input", os.path.join(sub, "root.json")], env=procs.env_for(seed, None), capture_output=True, text=True)
                outs.append(r.stdout if r.returncode == 0 else "EXC " + r.stderr.strip().splitlines()[-1] if r.stderr.strip() else "EXC")
                st.add("evaluations")
            st.add("states")
            st.add("transitions", 3)
            if len(set(outs)) > 1:
                st.violation("cli-output-differs-between-processes", "document %s: python -m statham gives different output under PYTHONHASHSEED 0/1/2" % label, {"document": label, "doc": doc, "outputs": [o[:800] for o in outs]})
    return st


def finish(total, meta):
    by_doc = {}
    for i, cfg, dg in total.sets.get("d", ()):
        by_doc.setdefault(i, {}).setdefault(dg, []).append(cfg)
    scratch = meta.get("scratch")
    fam = None
    bad = 0
    for i, groups in sorted(by_doc.items()):
        if len(groups) <= 1:
            total.outcome("identical-across-%d-configurations" % sum(len(v) for v in groups.values()))
            continue
        bad += 1
        if fam is None:
            fam = family("quick")  # labels only; thorough family is a superset in the same order? not guaranteed -> label looked up defensively
        cfgs = [sorted(v)[0] for v in groups.values()]
        texts = []
        for cfg in cfgs[:2]:
            try:
                seed = int(cfg.split("/")[0].replace("seed", ""))
                pas = cfg.split("/")[1]
                for k in (0, 1):
                    fn = os.path.join(scratch, "seed_%d_%d.json" % (seed, k))
                    if os.path.exists(fn):
                        data = json.load(open(fn))
                        if str(i) in data.get(pas, {}):
                            texts.append(data[pas][str(i)])
                            break
                else:
                    texts.append(None)
            except Exception:
                texts.append(None)
        what = "py" if texts[0] and texts[1] and texts[0]["py"] != texts[1]["py"] else "json" if texts[0] and texts[1] and texts[0]["json"] != texts[1]["json"] else "names"
        only_pass = all(c.split("/")[0] == cfgs[0].split("/")[0] for c in cfgs)
        key = "output-depends-on-%s:%s" % ("batch-order" if only_pass else "process-or-hash-seed", what)
        total.violation(key, "document #%d: %d different outputs across configurations %s" % (i, len(groups), {dg[:8]: cs[:3] for dg, cs in groups.items()}), {"document_index": i, "configurations": {dg[:8]: cs for dg, cs in groups.items()}, "outputs": texts}, rank=i)
    if scratch and os.path.isdir(scratch):
        shutil.rmtree(scratch, ignore_errors=True)
    return {"documents_compared": len(by_doc), "documents_differing": bad, "configurations": len({cfg for i, cfg, dg in total.sets.get("d", ())})}


def replay(case):
    """Re-generate the one document under two seeds in fresh processes and compare."""
    i = case.get("document_index")
    if i is None:
        return []
    scratch = tempfile.mkdtemp(prefix="verif_c09r_")
    try:
        outs = []
        for seed in (0, 1, 2, 4, 9, 15):
            res = run_worker(seed, "quick", os.path.join(scratch, "r.json"), only=i)
            outs.append(digest(res["forward"][str(i)]))
        if len(set(outs)) > 1:
            return [{"key": "output-depends-on-process-or-hash-seed", "what": "digests %s" % outs, "case": case}]
        return []
    finally:
        shutil.rmtree(scratch, ignore_errors=True)


if __name__ == "__main__":
    if len(sys.argv) > 1 and sys.argv[1] == "--worker":
        worker_main(sys.argv[2:])
        sys.exit(0)
    sys.exit(runner.main(sys.modules[__name__]))
