"""Narrow root-cause predicates for C19 findings recorded in known_findings.json."""
from statham.schema.elements import AllOf
from statham.serializers.orderer import get_children


def classify(label, element, mode, annotation, attribute):
    """allof-annotation-vs-first-member: the tree contains an AllOf node whose announced annotation is not the
    annotation of its FIRST member, while allOf validation returns the first member's result (both behaviours are
    pinned by the repository's own tests: test_first_match_is_returned and test_all_of_annotation)."""
    try:
        nodes = [element] + list(get_children(element))
    except Exception:
        return None
    for n in nodes:
        if not (isinstance(n, AllOf) and n.elements):
            continue
        members = [e.annotation for e in n.elements]
        first = members[0]
        # the documented rule of the pinned tree: the first explicit member annotation, else the first that is not Any
        explicit = [a for a in members if a != "Any" and not a.startswith("Union")]
        non_any = [a for a in members if a != "Any"]
        documented = (explicit or non_any or ["Any"])[0]
        # the recorded finding is exactly: the first member (whose result allOf returns) announces nothing explicit, and
        # the composition announces, by that rule, a LATER member's annotation.  Anything else is a different fault.
        if n.annotation == documented and documented != first and (first == "Any" or first.startswith("Union")):
            return "allof-annotation-vs-first-member"
    return None


def annotation_with_first_member_allof(compute):
    """Evaluate compute() while AllOf.annotation is (harness-side) redefined as its first member's annotation."""
    orig = AllOf.__dict__.get("annotation")
    AllOf.annotation = property(lambda self: self.elements[0].annotation)
    try:
        return compute()
    finally:
        if orig is not None:
            AllOf.annotation = orig
        else:
            del AllOf.annotation
