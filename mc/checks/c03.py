"""C03 — JSON Schema serialization preserves the meaning of any element tree.

E1 over element trees (DSL family + parser image of the schema lattice) x every choice of extra
definitions from a generated menu x value alphabet.  Oracle: the document is JSON-serializable,
metaschema-valid, all $refs resolve inside it, and for every value: tree accepts <=> the reference
Draft-6 evaluator accepts under the document.  Attribution (exact, not a loosening): when tree and
reference disagree but statham's own parse of the document agrees with the tree, statham reads its
own document consistently and deviates from Draft 6 on it -- C01's subject, counted here, not flagged.
"""
import json
import sys

from mc import docs, impl, lattice, runner
from mc.checks.c01 import metaschema_valid
from mc.gen import atoms as A
from mc.gen import elements as E
from mc.gen import values as VAL
from mc.ref import draft6 as R

from statham.schema.elements import AnyOf, Array, Element, Integer, Null, Object, String
from statham.schema.property import Property
from statham.schema.elements.meta import ObjectMeta
from statham.schema.parser import parse
from statham.serializers import serialize_json
from statham.serializers.orderer import get_children

PROP = "C03"
LEVEL = "model_checking"
RULE = (
    "explicit-state enumeration: every tree of the DSL element family and the parser image of every lattice schema (depth<=2, "
    "wrappers of depth<=1, object core) x every definitions choice of the generated menu (none / each distinct non-object "
    "sub-element / an equal copy / an unrelated element / an object class of the tree) + two-root calls; the real serialize_json "
    "output is checked (JSON-serializable, Draft-6 metaschema, refs resolve) and, for every value of the alphabet, tree verdict "
    "== reference verdict on the document; non-trivial = (tree, definitions) pairs whose verdict vector is not constant"
)
ASSUMPTIONS = [
    "preconditions of the serializer: class names unique within a tree, definition keys distinct from class names",
    "reference evaluator mc/ref/draft6.py; documented deviations handled by its Kleene mask",
]


def refs_resolve(doc):
    bad = []

    def walk(node):
        if isinstance(node, dict):
            if "$ref" in node and isinstance(node["$ref"], str):
                try:
                    R.resolve(doc, node["$ref"])
                except Exception:
                    bad.append(node["$ref"])
            for k, v in node.items():
                if k in ("const", "enum", "default"):
                    continue
                walk(v)
        elif isinstance(node, list):
            for v in node:
                walk(v)

    walk(doc)
    return bad


def _foreign():
    return Object.inline("C03Foreign", properties={"x": Property(String(), required=True)})


def _foreign_outer():
    return Object.inline("C03ForeignOuter", properties={"inner": Property(_foreign())})


def _swap_literal(x):
    """The same literal with booleans and the numbers Python equates with them exchanged."""
    if x is True:
        return 1
    if x is False:
        return 0
    if isinstance(x, int) and x in (0, 1):
        return bool(x)
    if isinstance(x, float) and x in (0.0, 1.0):
        return bool(x)
    if isinstance(x, list):
        return [_swap_literal(i) for i in x]
    if isinstance(x, dict):
        return {k: _swap_literal(v) for k, v in x.items()}
    return x


def lookalike(element):
    """A deep copy whose literal keywords are swapped as above; None when that changes nothing."""
    import copy

    from statham.schema.constants import NotPassed

    el = copy.deepcopy(element)
    changed = False
    for node in [el] + list(get_children(el)):
        if isinstance(node, ObjectMeta):
            continue
        for attr in ("const", "enum", "default"):
            old = getattr(node, attr, NotPassed())
            if isinstance(old, NotPassed):
                continue
            new = _swap_literal(old)
            if json.dumps(runner.jsonable(new), sort_keys=True) != json.dumps(runner.jsonable(old), sort_keys=True):
                setattr(node, attr, new)
                changed = True
    return el if changed else None


def _dup_source():
    class DupParent(Object):
        class_ = Property(String(), source="class")

    class DupSource(DupParent):
        kind = Property(Integer(), source="class")  # a second attribute for the same JSON name

    return DupSource


def _required_chain():
    class Draft(Object, required=["author"]):
        title = Property(String())

    class Anonymous(Draft, required=["title"]):
        note = Property(String())

    return Anonymous


EXTRA_TREES = [
    ("DupSource(two attributes, one JSON name)", _dup_source),
    ("Array(DupSource)", lambda: Array(_dup_source())),
    ("Anonymous(Draft) with explicit required on both", _required_chain),
    ("Array(Anonymous(Draft))", lambda: Array(_required_chain())),
    ("Array(Element(const=1))", lambda: Array(Element(const=1))),
    ("Element(properties p: enum[0,'a'], q: const [True])", lambda: Element(properties={"p": Property(Element(enum=[0, "a"])), "q": Property(Element(const=[True, {"k": 1.0}]))})),
    ("AnyOf(Integer(const=0), Null())", lambda: AnyOf(Integer(const=0), Null())),
    ("Element(enum=[])", lambda: Element(enum=[])),
    ("Array(Element(enum=[]))", lambda: Array(Element(enum=[], default=1))),
]


def definition_menu(tree_factory, rich=True):
    """List of (label, builder(tree) -> (elements tuple, definitions dict or None))."""
    menu = [("none", lambda t: ((t,), None))]
    t0 = tree_factory()
    subs = []
    seen = []
    for ch in get_children(t0):
        if isinstance(ch, ObjectMeta):
            continue
        if any(ch == s for s in seen):
            continue
        seen.append(ch)
        subs.append(len(seen) - 1)
    classes = [c for c in get_children(t0) if isinstance(c, ObjectMeta)]

    def nth_sub(t, n):
        out = []
        for ch in get_children(t):
            if isinstance(ch, ObjectMeta) or any(ch == s for s in out):
                continue
            out.append(ch)
        return out[n] if n < len(out) else None

    for n in subs[:6]:
        menu.append(("sub%d" % n, lambda t, n=n: ((t,), {"def%d" % n: nth_sub(t, n)} if nth_sub(t, n) is not None else None)))
    if subs:
        # an equal-but-not-identical copy, built from a second fresh tree
        menu.append(("equal-copy", lambda t: ((t,), {"copy": nth_sub(tree_factory(), 0)})))
    for n in subs[:4]:
        if nth_sub(t0, n) is not None and lookalike(nth_sub(t0, n)) is not None:
            # a definition that differs from a sub-element only by True/1, False/0 inside a literal: NOT equal, never a stand-in
            menu.append(("lookalike%d" % n, lambda t, n=n: ((t,), {"near": lookalike(nth_sub(t, n))})))
    menu.append(("unrelated", lambda t: ((t,), {"unrel": String(minLength=99), "unrel2": Integer(const=True)})))
    # a class that is reachable only through the caller-supplied definitions
    menu.append(("foreign-class", lambda t: ((t,), {"foreign": Array(_foreign())})))
    if rich:
        menu.append(("foreign-class-nested", lambda t: ((t,), {"foreign": Element(properties={"p": Property(AnyOf(_foreign_outer(), Null()))})})))
    if classes:
        def cls_def(t):
            cs = [c for c in get_children(t) if isinstance(c, ObjectMeta)]
            return (t,), {"clsdef": cs[0]}

        menu.append(("class-of-tree", cls_def))

        def two_roots(t):
            cs = [c for c in get_children(t) if isinstance(c, ObjectMeta)]
            return (cs[0], t) if not isinstance(t, ObjectMeta) or True else (t,), None

        menu.append(("two-roots(child,tree)", two_roots))
    return menu


def judge(st, label, tree_factory, values, rank, menu=None):
    menu = menu or definition_menu(tree_factory)
    for dlabel, build in menu:
        tree = tree_factory()
        elements, definitions = build(tree)
        primary = elements[0]
        st.add("states")
        st.add("transitions")
        case = {"tree": label, "definitions": dlabel}
        try:
            doc = serialize_json(*elements, definitions=definitions) if definitions else serialize_json(*elements)
        except Exception as exc:
            st.violation("serialize-raised:%s@%s" % (type(exc).__name__, impl.where(exc)), "%s [%s]: serialize_json raised %r" % (label, dlabel, exc), case, rank)
            continue
        try:
            text = json.dumps(doc)
            doc = json.loads(text)
        except Exception as exc:
            st.violation("not-json-serializable", "%s [%s]: %r" % (label, dlabel, exc), case, rank)
            continue
        case["document"] = doc
        if not metaschema_valid(doc):
            st.violation("not-metaschema-valid", "%s [%s]: document %s is not a valid Draft-6 schema" % (label, dlabel, text[:300]), case, rank)
            continue
        bad = refs_resolve(doc)
        if bad:
            st.violation("dangling-ref", "%s [%s]: references %s do not resolve inside %s" % (label, dlabel, bad[:3], text[:300]), case, rank)
            continue
        reparsed = None
        kinds = set()
        for v in values:
            a_kind, _ = impl.do_call(primary, v)
            accepted = a_kind == impl.ACCEPT
            kinds.add(accepted)
            try:
                mask = R.verdict(doc, v, R.STATHAM)
            except Exception as exc:
                st.violation("reference-cannot-evaluate:%s" % type(exc).__name__, "%s [%s]: %r on %s" % (label, dlabel, exc, text[:300]), case, rank)
                break
            st.add("evaluations")
            st.add("traces")
            if (accepted and mask & R.V) or (not accepted and mask & R.I):
                st.outcome("agree")
                continue
            # disagreement: who is statham's own reading of the document with?
            if reparsed is None:
                try:
                    reparsed = parse(docs.load(doc))[0]
                except Exception as exc:
                    reparsed = exc
            if isinstance(reparsed, Exception):
                st.violation("document-does-not-reparse:%s" % type(reparsed).__name__, "%s [%s]: %s -> %r" % (label, dlabel, text[:300], reparsed), case, rank)
                break
            p_kind, _ = impl.do_call(reparsed, v)
            if (p_kind == impl.ACCEPT) == accepted:
                st.outcome("attributed-to-C01")
                st.add("attributed_to_c01")
                continue
            st.outcome("meaning-changed")
            st.violation("meaning-changed:%s" % dlabel.rstrip("0123456789"), "%s [%s]: value %s: tree %s, document %s says %s" % (label, dlabel, json.dumps(runner.jsonable(v))[:100], a_kind, text[:300], "valid" if mask & R.V else "invalid"), {**case, "value": v, "tree_verdict": a_kind, "reference_mask": mask, "reparsed_verdict": p_kind}, rank)
        if len(kinds) > 1:
            st.add("nontrivial")


def parsed_factory(schema):
    def f():
        kind, el = impl.do_parse(schema)
        if kind != impl.ELEMENT:
            raise RuntimeError("unparseable")
        return el

    return f


def plan(tier, seed):
    trees = E.all_trees(1 if tier == "quick" else 2) + EXTRA_TREES
    n = len(trees)
    chunk = 8
    items = [("dsl", lo, min(n, lo + chunk)) for lo in range(0, n, chunk)]
    items += [("lat", ("d1",))] + [("lat", ("d2", i)) for i in range(A.N)] + [("lat", ("wrap1", w)) for w in A.WRAPPERS] + [("lat", ("objcore", t, r)) for t in (0, 1) for r in range(5)] + [("lat", ("objcomp",))]
    if tier == "thorough":
        items += [("lat", ("wrap2", w, i)) for w in ("properties.a", "items", "anyOf0", "additionalProperties") for i in range(A.N)]
        items += [("lat", ("d3g", "object", i)) for i in A.GROUPS["object"]]
    return {"items": items, "meta": {"dsl_trees": n, "dsl_keyword_subsets": 1 if tier == "quick" else 2, "values_dsl": len(VAL.V) + len(VAL.V_OBJ), "exhaustive": True}}


_TIER = ["quick"]
_SEED = [0]


def work(item):
    st = runner.Stats()
    if item[0] == "dsl":
        trees = E.all_trees(1 if _TIER[0] == "quick" else 2) + EXTRA_TREES
        values = VAL.V + VAL.V_OBJ
        for label, factory in trees[item[1]:item[2]]:
            judge(st, label, factory, values, 0)
            if st.c["states"] % 13 == 1:
                st.sample({"tree": label, "definition_choices": [m[0] for m in definition_menu(factory)]})
    else:
        for sid, schema, values, ntrans in lattice.expand(item[1]):
            if schema is None or not metaschema_valid(schema):
                continue
            f = parsed_factory(schema)
            try:
                f()
            except RuntimeError:
                continue
            full = item[1][0] in ("d1", "objcore") or (_TIER[0] == "thorough" and item[1][0] in ("d2", "wrap1"))
            if full:
                menu = definition_menu(f, rich=False)
            else:
                m = definition_menu(f)
                pick = 1 + (lattice._h(sid, _SEED[0]) % (len(m) - 1)) if len(m) > 1 else 0
                menu = [m[0]] + ([m[pick]] if pick and lattice._h(sid, "x", _SEED[0]) % 3 == 0 else [])
            judge(st, json.dumps(schema, sort_keys=True), f, list(values), len(sid), menu)
            if st.c["states"] % 2999 == 1:
                st.sample({"schema": schema})
    docs.clear()
    return st


def replay(case):
    st = runner.Stats()
    label = case["tree"]
    fac = dict(E.all_trees(2) + EXTRA_TREES).get(label)
    if fac is None:
        fac = parsed_factory(json.loads(label))
    judge(st, label, fac, VAL.V + VAL.V_OBJ, 0)
    return [v for lst in st.violations.values() for _, v in lst]


def _main():
    import os

    for i, a in enumerate(sys.argv):
        if a == "--tier" and i + 1 < len(sys.argv):
            _TIER[0] = sys.argv[i + 1]
    if os.environ.get("VERIF_TIER") and "--tier" not in sys.argv:
        _TIER[0] = os.environ["VERIF_TIER"]
    try:
        _SEED[0] = int(os.environ.get("VERIF_SEED", "0") or 0)
    except ValueError:
        pass
    return runner.main(sys.modules[__name__])


if __name__ == "__main__":
    sys.exit(_main())
