"""In-memory document store served to json_ref_dict, and the real generation pipeline."""
import copy
import itertools

from mc import runner  # noqa: F401

from json_ref_dict import RefDict, materialize
from json_ref_dict.loader import loader
from json_ref_dict import ref_pointer

from statham.titles import title_labeller

_STORE = {}
_COUNTER = itertools.count()
_REGISTERED = [False]


def _mem_loader(base_uri):
    if base_uri in _STORE:
        return copy.deepcopy(_STORE[base_uri])
    return ...


def ensure_loader():
    if not _REGISTERED[0]:
        loader.register(_mem_loader)
        _REGISTERED[0] = True


def put(doc, extra=None, name="root.json"):
    """Store a document (and optional sibling files {filename: doc}) under a fresh directory; returns the root URI."""
    ensure_loader()
    n = next(_COUNTER)
    if n % 500 == 499:
        clear()
    base = "/mem/%d/" % n
    _STORE[base + name] = doc
    for fn, d in (extra or {}).items():
        _STORE[base + fn] = d
    return base + name


def clear():
    _STORE.clear()
    for fn in (ref_pointer.resolve_uri, ref_pointer.resolve_uri_to_urivalue_pair, ref_pointer._resolve_cached_root_doc):
        try:
            fn.cache_clear()
        except Exception:
            pass


def load(doc, extra=None, pointer="#/"):
    """The documented pipeline: dereference + auto-title, exactly as statham.__main__.main does."""
    uri = put(doc, extra)
    return materialize(RefDict.from_uri(uri + pointer), context_labeller=title_labeller())


def generate(doc, extra=None, pointer="#/"):
    """Module text through the real entry point statham.__main__.main."""
    from statham.__main__ import main

    uri = put(doc, extra)
    return main(uri + pointer)
