"""E1: bounded enumeration of the schema construction lattice.

Work items (picklable tuples) -> generator of (state_id, schema, values, n_transitions).
The transition count is the number of successor edges *generated* from the state's
parent(s): one per atom added / wrapper applied.
"""
import hashlib

from mc.gen import atoms as A
from mc.gen import values as VAL


def _h(*parts):
    return int(hashlib.sha1(repr(parts).encode()).hexdigest()[:8], 16)


def plan_items(tier, seed, d3_mod_quick=64, groups_thorough=True):
    """Simplest first."""
    items = [("d1",)]
    items += [("d2", i) for i in range(A.N)]
    items += [("wrap1", w) for w in A.WRAPPERS]
    items += [("objcore", t, r) for t in (0, 1) for r in range(5)]
    items += [("wrapobj", w) for w in A.WRAPPERS]
    items += [("objcomp",)]
    items += [("core", "numeric", k, 8) for k in range(8)] + [("core", "string", k, 4) for k in range(4)]
    if tier != "quick":
        items += [("core", "array", k, 64) for k in range(64)] + [("core", "composition", k, 64) for k in range(64)]
    else:
        items += [("core", "array", (seed * 5 + k) % 64, 64) for k in range(4)] + [("core", "composition", (seed * 5 + k) % 64, 64) for k in range(4)]
    meta = {"atoms": A.N, "leaves": len(A.LEAVES), "values": len(VAL.V), "wrappers": len(A.WRAPPERS), "depth_complete": 2}
    if tier == "quick":
        mod = d3_mod_quick
        r = seed % mod
        items += [("d3", i, mod, r) for i in range(A.N)]
        meta["cores"] = "numeric + string keyword-family products complete; array + composition products: 4/64 seed-rotated shards"
        meta["depth3_slice"] = "pairs (i,j) with sha1(i,j) mod %d == %d (seed-rotated)" % (mod, r)
    else:
        for g, pool in A.GROUPS.items():
            items += [("d3g", g, i) for i in pool]
        items += [("wrap2", w, i) for w in A.WRAPPERS for i in range(A.N)]
        items += [("wrapwrap", w1, w2) for w1 in A.WRAPPERS for w2 in A.WRAPPERS]
        mod = 4
        r = seed % mod
        items += [("d3", i, mod, r) for i in range(A.N)]
        meta["depth3"] = "complete inside each interaction group %s; plus 1/%d seed-rotated slice of the cross-group depth-3 lattice" % (sorted(A.GROUPS), mod)
        meta["cores"] = "object, numeric, string, array, composition keyword-family products complete (typed and untyped)"
        meta["wrappers_over_depth"] = 2
        meta["wrapper_nesting"] = 2
    return items, meta


def expand(item):
    kind = item[0]
    if kind == "one":
        # a single depth-1 state (used for first-use runs in pristine processes)
        yield ("s", item[1]), A.schema_of((item[1],)), VAL.V, 1
    elif kind == "d1":
        for n, leaf in enumerate(A.LEAVES):
            yield ("leaf", n), leaf, VAL.V, 1
        for (i,) in A.depth1():
            yield ("s", i), A.schema_of((i,)), VAL.V, 1
    elif kind == "d2":
        for st in A.depth2_from(item[1]):
            yield ("s",) + st, A.schema_of(st), VAL.V, 2
    elif kind == "d3":
        _, i, mod, r = item
        for (a, b) in A.depth2_from(i):
            if _h(a, b) % mod != r:
                continue
            for st in A.depth3_from(a, b):
                yield ("s",) + st, A.schema_of(st), VAL.V, 3
    elif kind == "d3g":
        _, g, i = item
        pool = A.GROUPS[g]
        for j in pool:
            if j <= i or not A.compatible(i, j):
                continue
            for st in A.depth3_from(i, j, pool):
                yield ("s",) + st, A.schema_of(st), VAL.V, 3
    elif kind == "objcore":
        # full product of the object-core keywords (depth <= 5): type x required x properties x
        # patternProperties x additionalProperties -- the interaction the typed-object parser restructures
        _, typed, ri = item
        by = lambda kw: [a["i"] for a in A.ATOMS if a["kw"] == kw]
        reqs = [None] + by("required")
        tobj = [a["i"] for a in A.ATOMS if a["frag"] == A.OBJ][0]
        for p in [None] + by("properties"):
            for pp in [None] + by("patternProperties"):
                for ap in [None] + by("additionalProperties"):
                    st = tuple(x for x in ((tobj if typed else None), reqs[ri], p, pp, ap) if x is not None)
                    if len(st) <= 3 and not typed:
                        pass  # also covered by d2/d3 slices; harmless duplicate
                    yield ("s",) + st, A.schema_of(st), VAL.V, len(st)
    elif kind == "objcomp":
        # object schemas that the parser visits twice (type lists, sibling composition keywords) with renamed and
        # required properties: what the second pass sees are attribute names, not JSON names
        import copy as _copy

        props = [
            {"class": {"type": "integer"}},
            {"a b": {"type": "integer"}, "c": {"type": "string"}},
            {"class": {"type": "integer", "default": 1}, "a": {}},
            {"a": {"type": "integer"}},
        ]
        reqs = [["class"], ["a b"], ["a"], ["class", "c"], []]
        types = [{"type": "object", "title": "Obj"}, {"type": ["object"], "title": "Obj"}, {"type": ["object", "null"], "title": "Obj"}, {"type": ["array", "object"], "title": "Obj"}, {}]
        comps = [{}, {"anyOf": [True]}, {"not": False}, {"allOf": [{}, {"minProperties": 0}]}, {"oneOf": [{"maxProperties": 5}]}, {"anyOf": [{"required": ["zz"]}, {}], "not": {"required": ["nope"]}}]
        extras = [{}, {"additionalProperties": False}, {"patternProperties": {"^c": {"type": "integer"}}}]
        vals = [{}, {"class": 1}, {"a b": 1}, {"class": "x"}, {"a": 1}, {"class": 1, "c": "s"}, {"a b": 1, "c": "s", "zz": 0}, {"class_": 1}, {"a_b": 1}, None, 1, [], {"class": 1, "a": 2, "extra": 3}, {"c": 1}]
        n = 0
        for t in types:
            for p_ in props:
                for r in reqs:
                    if not all(name in p_ or True for name in r):
                        continue
                    for c in comps:
                        for e in extras:
                            n += 1
                            schema = _copy.deepcopy({**t, "properties": p_, **({"required": r} if r else {}), **c, **e})
                            yield ("objcomp", n), schema, vals, len(schema)
    elif kind == "wrapobj":
        # equally titled object classes with DIFFERENT contents under one wrapper, one after the other in one process
        # (anything keyed on a class name / repr instead of the class itself shows up here)
        w = item[1]
        vals = VAL.lift(A.lift_position(w))
        tobj = [a["i"] for a in A.ATOMS if a["frag"] == A.OBJ][0]
        for a in A.ATOMS:
            if a["kw"] in ("properties", "required", "additionalProperties", "patternProperties", "minProperties", "dependencies"):
                st = (tobj, a["i"])
                yield ("w", w) + st, A.wrap(w, A.schema_of(st)), vals, 2
    elif kind == "core":
        # full product of one keyword family (every keyword absent or one of its atoms), typed and untyped:
        # the k-way interactions inside a family that a depth-3 bound cannot reach
        _, fam, shard, nshards = item
        by = lambda kw: [None] + [a["i"] for a in A.ATOMS if a["kw"] == kw]
        tfrag = lambda frag: [a["i"] for a in A.ATOMS if a["frag"] == frag][0]
        fams = {
            "numeric": ([None, tfrag({"type": "number"}), tfrag({"type": "integer"}), tfrag({"type": ["integer", "number"]})], ["minimum", "maximum", "exclusiveMinimum", "exclusiveMaximum", "multipleOf"]),
            "string": ([None, tfrag({"type": "string"}), tfrag({"type": ["string", "null"]})], ["minLength", "maxLength", "pattern", "format"]),
            "array": ([None, tfrag({"type": "array"})], ["items", "additionalItems", "contains", "uniqueItems", "minItems", "maxItems"]),
            "composition": ([None, tfrag({"type": "integer"}), tfrag({"type": ["integer", "string", "boolean"]})], ["anyOf", "oneOf", "allOf", "not"]),
        }
        types, kws = fams[fam]
        import itertools as _it

        n = 0
        for combo in _it.product(types, *[by(k) for k in kws]):
            n += 1
            if n % nshards != shard:
                continue
            st = tuple(x for x in combo if x is not None)
            if len(st) <= 2:
                continue  # already covered by the depth-2 enumeration
            yield ("s",) + st, A.schema_of(st), VAL.V, len(st)
    elif kind == "wrap1":
        w = item[1]
        vals = VAL.lift(A.lift_position(w))
        for n, leaf in enumerate(A.LEAVES):
            yield ("w", w, "leaf", n), A.wrap(w, leaf), vals, 1
        for (i,) in A.depth1():
            yield ("w", w, i), A.wrap(w, A.schema_of((i,))), vals, 1
    elif kind == "wrap2":
        _, w, i = item
        vals = VAL.lift(A.lift_position(w))
        for st in A.depth2_from(i):
            yield ("w", w) + st, A.wrap(w, A.schema_of(st)), vals, 1
    elif kind == "wrapwrap":
        _, w1, w2 = item
        inner_vals = VAL.lift(A.lift_position(w2), VAL.V_SMALL)
        vals = VAL.lift(A.lift_position(w1), inner_vals) if A.lift_position(w1) != "root" else inner_vals
        if len(vals) > 160:
            vals = vals[:160]
        for n, leaf in enumerate(A.LEAVES):
            yield ("ww", w1, w2, "leaf", n), A.wrap(w1, A.wrap(w2, leaf)), vals, 2
        for (i,) in A.depth1():
            yield ("ww", w1, w2, i), A.wrap(w1, A.wrap(w2, A.schema_of((i,)))), vals, 2
    else:
        raise KeyError(kind)


def describe(state_id):
    return list(state_id)
