import json, sys
sys.path.append('/verif/.deps')
import jsonschema
m = json.load(open('/verif/MANIFEST.json'))
jsonschema.Draft202012Validator(json.load(open('/root/.vp/MANIFEST.schema.json'))).validate(m)
props = [json.loads(l)['id'] for l in open('/verif/properties.jsonl')]
claimed = [c['property_id'] for c in m['checks']]
na = [n['property_id'] for n in m.get('not_applicable', [])]
print('manifest ok; claimed', claimed, 'n/a', na, 'unlisted', [p for p in props if p not in claimed and p not in na])
