#!/bin/bash
# usage: tools_revert_test.sh <fix-commit> <ID> [<ID>...]  -- temporarily reverse-applies a fix commit to /repo's working tree,
# runs the named checks (quick, no evidence), restores the tree.  A detection demo for "fixed" entries.
c="$1"; shift
cd /repo || exit 2
git diff --quiet || { echo "repo working tree dirty"; exit 2; }
git show "$c" | git apply -R || exit 2
for id in "$@"; do
  (cd /verif && ./check "$id" --tier quick --no-evidence 2>&1 | grep -E "VIOLATION|key=|KNOWN|tier=" | cut -c1-260 | head -8)
done
git -C /repo checkout -- .
