#!/bin/bash
# usage: tools_seed_batch.sh <PROP> <checks for m1> [<checks for m2>]   -- evaluates $WT_PREFIX<PROP>/MUTATION/patch{1,2}.diff
#   env WT_PREFIX (default /tmp/wt/), NAME_TAG (default m) -> saved as seeded/<PROP>-<NAME_TAG><i>
p="$1"; c1="$2"; c2="${3:-$2}"
pre="${WT_PREFIX:-/tmp/wt/}"; tag="${NAME_TAG:-m}"
cd /verif
for i in 1 2; do
  d=$pre$p/MUTATION
  [ -f $d/patch$i.diff ] || continue
  ck=$c1; [ $i = 2 ] && ck=$c2
  needs=$(grep -v '^#' $d/notes$i.md | tr '\n' ' ' | cut -c1-900)
  python3 tools_seed.py eval $d/patch$i.diff $d/demo$i.py $ck --save $p-$tag$i --prop $p --needs "$needs" --notes $d/notes$i.md > /tmp/wt/eval_$p-$tag$i.json 2>&1
  echo "$p-$tag$i: $(python3 -c "import json,sys; s=open('/tmp/wt/eval_$p-$tag$i.json').read(); j=json.loads(s[:s.rindex('}')+1]); print('applies',j['applies'],'valid',j.get('valid_seed'),'caught_by',j.get('caught_by'), [l for c in j.get('checks',[]) for l in c['lines'] if 'key=' in l][:1])" 2>&1 | tail -1 | cut -c1-330)"
done
