#!/bin/bash
# usage: tools_seed_batch.sh <PROP> <checks> [more checks for mutation 2]   -- evaluates /tmp/wt/<PROP>/MUTATION/patch{1,2}.diff
p="$1"; c1="$2"; c2="${3:-$2}"
cd /verif
for i in 1 2; do
  d=/tmp/wt/$p/MUTATION
  [ -f $d/patch$i.diff ] || continue
  ck=$c1; [ $i = 2 ] && ck=$c2
  needs=$(grep -v '^#' $d/notes$i.md | tr '\n' ' ' | cut -c1-900)
  python3 tools_seed.py eval $d/patch$i.diff $d/demo$i.py $ck --save $p-m$i --prop $p --needs "$needs" --notes $d/notes$i.md > /tmp/wt/eval_$p-m$i.json 2>&1
  echo "$p-m$i: $(python3 -c "import json,sys; s=open('/tmp/wt/eval_$p-m$i.json').read(); j=json.loads(s[:s.rindex('}')+1]); print('valid',j['valid_seed'],'caught_by',j['caught_by'])" 2>&1 | tail -1)"
done
