#!/usr/bin/env python3
"""Append a `fixed` entry to known_findings.json: tools_fixed.py <PROP> <commit> <what>"""
import json
import sys

prop, commit, what = sys.argv[1], sys.argv[2], sys.argv[3]
p = "/verif/known_findings.json"
d = json.load(open(p))
d["findings"].append({"property": prop, "key": "fixed:%s" % commit, "status": "fixed", "commit": commit, "what": what})
json.dump(d, open(p, "w"), indent=1)
open(p, "a").write("\n")
