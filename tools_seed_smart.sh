#!/bin/bash
# usage: tools_seed_smart.sh <PROP> <idx> <checks> -- evaluates one seeded change on the scratch worktree at main if its patch
# applies there, else at the commit given by $OLD_BASE (baseline violation keys of that older tree are subtracted).
p="$1"; i="$2"; ck="$3"
pre="${WT_PREFIX:-/tmp/wt/}"; tag="${NAME_TAG:-m}"; d=$pre$p/MUTATION
export SEED_REPO="${SEED_REPO:-/tmp/wt/seedrepo}"
git -C $SEED_REPO checkout -q -- . ; git -C $SEED_REPO checkout -q --detach main
if ! git -C $SEED_REPO apply --check $d/patch$i.diff 2>/dev/null; then git -C $SEED_REPO checkout -q --detach "${OLD_BASE}"; fi
base=$(git -C $SEED_REPO rev-parse --short HEAD)
cd /verif
needs=$(grep -v '^#' $d/notes$i.md | tr '\n' ' ' | cut -c1-900)
python3 tools_seed.py eval $d/patch$i.diff $d/demo$i.py $ck --save $p-$tag$i --prop $p --needs "$needs" --notes $d/notes$i.md > /tmp/wt/eval_$p-$tag$i.json 2>&1
echo "$p-$tag$i@$base: $(python3 -c "import json,sys; s=open('/tmp/wt/eval_$p-$tag$i.json').read(); j=json.loads(s[:s.rindex('}')+1]); print('applies',j['applies'],'valid',j.get('valid_seed'),'caught_by',j.get('caught_by'), [l for c in j.get('checks',[]) for l in c['lines'] if 'key=' in l][:1])" 2>&1 | tail -1 | cut -c1-300)"
