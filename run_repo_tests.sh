#!/bin/bash
# Runs the repository's pinned test suite (guard off); prints the summary line. $1 = repo dir (default /repo)
cd "${1:-/repo}" && env -u STATHAM_VERIF PYTHONDONTWRITEBYTECODE=1 /venv/bin/python -m pytest -ra -q -p no:cacheprovider --timeout=900 --continue-on-collection-errors 2>&1 | tail -4
