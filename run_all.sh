#!/bin/bash
# Runs every check (default tier quick) against /repo, rewriting evidence/<id>.json; prints one summary line per check.
tier="${1:-quick}"
cd "$(dirname "$0")"
rc=0
for i in $(seq -w 1 20); do
  id="C$i"
  out=$(./check "$id" --tier "$tier" 2>&1)
  code=$?
  echo "$out" | grep -E "^(VIOLATION|KNOWN-FINDING|$id tier)" | cut -c1-220
  [ $code -ne 0 ] && rc=1
done
exit $rc
