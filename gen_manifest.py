#!/usr/bin/env python3
"""Regenerates MANIFEST.json from the table below (run after adding a check)."""
import json
import os

HERE = os.path.dirname(os.path.abspath(__file__))

ENGINES = {
    "E1-lattice": ("mc/lattice.py", "explicit-state BFS over a bounded construction lattice (schemas / documents / element trees / graphs / names); the real implementation is executed in every state and an invariant or reference model is evaluated there"),
    "E2-history": ("mc/history.py", "explicit-state BFS over operation sequences on live objects up to a depth bound; states are event histories rebuilt on fresh objects and de-duplicated by a full canonical snapshot"),
    "E3-schedule": ("mc/sched.py", "stateless exploration of all interleavings of real threads up to a preemption bound (iterative context bounding) under a sys.settrace line-level cooperative scheduler"),
    "E4-config": ("mc/procs.py", "exhaustive enumeration of a configuration space (iteration orders of hash-ordered sets realised by concrete PYTHONHASHSEEDs, batch order, process instances), one interpreter process per configuration"),
}

# id: (engine, level text, level note, technique)
CHECKS = {
    "C01": (
        "E1-lattice",
        "Every schema of the bounded construction lattice (all <=2-atom states over 165 keyword atoms, every 14-position wrapper of every <=1-atom state, the full object-core product type x required x properties x patternProperties x additionalProperties, a seed-rotated slice of depth 3; thorough: depth 3 inside each interaction group, wrappers of depth-2 states, nested wrappers) is parsed by the real parser and called on every value of a 56-value alphabet; each verdict is compared with a reference Draft-6 evaluator that is itself bound to jsonschema on every pair.",
        "trusted: mc/ref/draft6.py (cross-checked against jsonschema 4.26 on every explored pair); alphabets and depth bounds as stated in the evidence",
        "explicit-state enumeration of a bounded schema lattice x value alphabet on the real code, reference-model oracle",
    ),
    "C04": (
        "E1-lattice",
        "Every accepted (schema, value) pair of the same bounded lattice as C01 is executed on the real code and the returned model is compared with the input by a structural embedding oracle (members under Python/JSON names, scalar identity up to int->float under number, array length/order, extras only defaults or the not-passed marker).",
        "trusted: mc/ref/embed.py; branch-agnostic for untyped nested results (weaker than the statement there); alphabets/bounds as for C01",
        "explicit-state enumeration of the schema lattice x value alphabet, structural embedding oracle on every accepted pair",
    ),
    "C08": (
        "E2-history",
        "For every DSL-built tree of the element family and every parsed lattice schema (depth<=2 + wrappers + object core), all validate(v) transitions over the value alphabet are executed; each successor state (full canonical snapshot incl. private attributes, aliasing and registries) must equal its predecessor, so each tree's reachable set is one state; inputs unchanged; serializations unchanged; repetition round and depth-2 pair histories compared with a pristine tree.",
        "accepted results are fed back as inputs (bare and nested) into the same element and probe elements; trusted: mc/impl.snapshot completeness (hedged by the depth-2 differential); value alphabets as stated",
        "explicit-state exploration of call histories with full-snapshot state comparison (all transitions must be self-loops)",
    ),
    "C10": (
        "E1-lattice",
        "Outcome classes of every call/parse over the ordinary lattice (depth<=2 + wrappers) and over the product of an extreme-schema family x an extreme-value alphabet (huge/tiny/infinite numbers, long digit strings, surrogates, nesting depth 100, unhashable mixes, dunder member names), each under a call-event budget and under natural and reversed validator iteration order, plus corner-schema parses.",
        "trusted: the call-event budget as a stand-in for termination; catastrophic-backtracking patterns excluded (stated in DESIGN.md)",
        "exhaustive enumeration of a bounded extreme schema x value product on the real code, outcome-class invariant",
    ),
    "C13": (
        "E2-history",
        "Breadth-first search over all operation histories up to depth 3 (quick) / 4 (thorough) on six kinds of live objects (untyped element, element with properties, String, Array, model class, subclass) with an alphabet of keyword assignments, property add/replace/delete/wholesale assignment and validation calls; in every state the live object's verdict+result vector over 28 probes equals that of a freshly constructed object carrying the reference model's configuration.",
        "two payload objects live as long as the history (validated again as the same object); trusted: the reference config model in mc/checks/c13.py; operation alphabet and depth bound as stated",
        "explicit-state BFS over reconfiguration/validation histories on real objects, differential against a freshly built twin in every state",
    ),
    "C15": (
        "E2-history",
        "All parent/child declarations over an 11-keyword class menu (sizes <=1 x <=2 and 2 x <=1, 5 property moves, chain length 2 and 3) are executed and the child compared with the flat class (verdicts, results, JSON), instances with isinstance, the parent observed before/after; plus BFS to depth 3/4 over histories of defining, using and reconfiguring children with the parent's full observation as state invariant.",
        "trusted: flat-class construction in mc/checks/c15.py; in-place mutation of inherited keyword values and docstring descriptions are outside the alphabet",
        "exhaustive enumeration of inheritance declarations + explicit-state BFS over define/use/reconfigure histories, parent-unchanged invariant",
    ),
    "C14": (
        "E3-schedule",
        "Real threads validating on one shared tree are run under a baton scheduler whose scheduling points are trace events inside statham files; all schedules with <=1 preemption at line granularity (quick: 5 harnesses; thorough: 11) and at call/backward-jump granularity (4 harnesses, one with 3 threads), and all schedules with <=2 preemptions at call/backward-jump granularity on small harnesses (thorough: complete for T1, T3; quick: a seed-rotated slice of first preemption points for T3) are executed to completion; each thread's verdict/result must equal its sequential run and the tree snapshot must be unchanged; replayed prefixes must not diverge.",
        "trusted: mc/sched.py (determinism probe replays one schedule twice per harness before exploring; divergence is a hard error); intra-line switches and C-extension internals are atomic; two preemptions are explored only at call granularity (H9) and inside single components (format / exception modules, H10 H11); two preemptions at line granularity for whole validations are not claimed",
        "stateless model checking of thread interleavings with iterative context bounding on the real code (sys.settrace scheduling points, semaphore baton)",
    ),
    "C03": (
        "E1-lattice",
        "Every tree of the DSL element family and the parser image of every lattice schema (depth<=2, wrappers, object core) is serialized by the real serialize_json under every definitions choice of a generated menu (none, each distinct sub-element, an equal copy, an unrelated element, an object class of the tree, two roots); the document must be JSON-serializable, Draft-6 metaschema-valid, reference-closed, and for every alphabet value the tree's verdict must equal the reference evaluator's verdict on the document (disagreements that statham's own re-parse of the document shares are attributed to C01 and counted).",
        "trusted: mc/ref/draft6.py; preconditions: class names unique within a tree, definition keys distinct from class names",
        "explicit-state enumeration of element trees x definitions choices x values on the real serializer, reference-model oracle on the produced document",
    ),
    "C05": (
        "E1-lattice",
        "The full product of 5 declaration forms x property sets over plain and renamed names x 14 (kind, default) options (none, valid, invalid, falsy, nested-object, required+default) x 4 additionalProperties options x all subsets of supplied members is executed and every member of the resulting model compared with a dict reference model; every element of the DSL family is also called with no value.",
        "trusted: the dict reference model in mc/checks/c05.py; every ordered pair of property options is also run as the first use of the library in a process of its own (fork-server, 800+ processes); a result that was edited in place by its owner must not reach the next construction; validity of a default is judged differentially by supplying it explicitly",
        "exhaustive enumeration of object declarations x supplied-member subsets on the real code, dict reference model",
    ),
    "C06": (
        "E1-lattice",
        "Every lattice schema (depth<=2, wrappers, object core, depth-3 slice; thorough: depth 3 in groups, wrappers of depth 2) is pushed through parse -> serialize_json -> real dereferencing pipeline -> parse -> serialize_json and through serialize_python -> exec; the second document must be identical to the first (type-strict, ordered), the re-parsed element must behave identically, and the generated classes must equal the parsed ones.",
        "trusted: json_ref_dict's materialize as the documented dereferencer; object-typed schemas carry a title",
        "explicit-state enumeration of the schema lattice, differential round-trip oracle (first vs second serialization, parsed vs executed generated classes)",
    ),
    "C07": (
        "E1-lattice",
        "The full product 13 contexts x 20 inner shapes x 14 default values x {with, without a second default} and 6 class positions x a 42-string description alphabet is run through the real parser, both serializers and exec of the generated module; the element at the declaring position must carry exactly the default, the multiset of defaults must be preserved in the tree, the JSON document and the generated classes, no container default may be shared by identity, descriptions must arrive character for character.",
        "trusted: position accessors in mc/checks/c07.py; for a one-member composition with two competing defaults only the outer (schema/property level) default is judged; lone surrogates are excluded; 912 (context, shape, default) cases are repeated one per pristine process",
        "exhaustive enumeration of default/description placements on the real parser and serializers, positional + multiset oracle",
    ),
    "C16": (
        "E2-history",
        "BFS over all registration histories (4 names x 3 predicates, depth 3 / 4 = whole reachable registry space) with every (element kind, name, value) verdict and warning count compared with a name->predicate reference dict in every state; plus exhaustive enumeration of a canonical-UUID family and of the per-field boundary product of RFC 3339 timestamps through the built-in checkers.",
        "trusted: RFC 3339 generator (mc/ref/draft6.is_rfc3339 filters the product); two recorded dateutil limits are listed in known_findings.json",
        "explicit-state BFS over registry histories + exhaustive enumeration of built-in format families, reference-dict oracle",
    ),
    "C17": (
        "E1-lattice",
        "== is evaluated on every ordered pair of a 479-element pool built so that most pairs differ in one keyword, one literal (1/true/1.0, []/not-passed), one property attribute or only the element class; reflexivity, symmetry and equality of independently rebuilt copies are checked, and every equal pair must have identical verdict vectors over the value alphabet and identical JSON serializations (JSON data model, titles normalised).",
        "trusted: pool construction in mc/checks/c17.py; the weaker (title-normalised, numeric-by-value) reading of 'same JSON Schema'",
        "exhaustive enumeration of ordered element pairs, equality-implies-indistinguishability oracle",
    ),
    "C11": (
        "E1-lattice",
        "Every labelled digraph with self-loops on n<=3 classes (thorough: n=4) is realised on real model classes through each of 15 dependency positions (cycles by assignment after class creation) under several root sets, plus all <=3-edge graphs under mixed position assignments (seed-rotated slice); the real orderer runs under a call-event budget and its output is compared with a DFS reference that is cross-checked with networkx.",
        "trusted: mc/checks/c11.reference (cross-checked against networkx on every case); distinct class names",
        "exhaustive enumeration of small dependency graphs x keyword positions on the real orderer, reference topological-order/cycle oracle",
    ),
    "C12": (
        "E1-lattice",
        "All 1,114,112 code points, alone and in 5 contexts, all <=3-symbol strings over a 12-symbol alphabet, all keywords / dir(object) / machinery attribute names go through the real name mapper and are judged (identifier, not keyword, not reserved, NFKC-stable); every name whose image differs from itself is parsed together with its image and with its NFKC form as siblings of one object (both must survive); titles: a separator lemma is checked for every code point in 3 contexts and all ASCII/Latin-1 titles, module-used names and category representatives are generated and executed.",
        "trusted: the separator-lemma reduction for titles (checked exhaustively at mapper level); strings with more than one arbitrary code point outside the fixed contexts are not covered",
        "exhaustive enumeration over the Unicode code-point alphabet in fixed contexts + behavioural sibling/title layer on the real parser and generator",
    ),
    "C18": (
        "E1-lattice",
        "Every element of the DSL family (each element class x every keyword subset of size <=3, thorough 4, x literal choices), a 25-literal alphabet under const/default/enum, nested elements, compositions, arrays and property wrappers in every binding state: repr is evaluated in a namespace of the public classes and compared with the original, and the repr's AST keyword set is compared with the set of non-default constructor arguments.",
        "trusted: type-strict 'differs from the constructor default' judgement in mc/checks/c18.py; bound properties are re-bound before comparison (weaker reading)",
        "exhaustive enumeration of DSL-constructible elements, eval(repr(x)) == x and AST keyword-set oracle",
    ),
    "C19": (
        "E1-lattice",
        "Every pool element (DSL family, compositions nested to depth 2 over typed/untyped/class members, tuple items with and without additionalItems, parser image of lattice schemas) is placed under an optional and a required property and as array items of a fresh model; for every alphabet value the model accepts (+ omission) the runtime attribute is judged structurally against the annotation taken from the generated property line.",
        "trusted: structural judge in mc/checks/c19.py; defaults restricted to valid ones; one recorded design conflict (AllOf annotation vs first-member result) listed in known_findings.json with a two-part predicate",
        "exhaustive enumeration of element placements x accepted values on the real code, structural type-membership oracle",
    ),
    "C02": (
        "E1-lattice",
        "Every document of the family (14 reference shapes x 6 title shapes x payload pairs + described documents) is generated through the real entry point statham.__main__.main from an in-memory loader; the module is compiled and executed in a namespace holding only builtins, its classes must be in bijection with the parsed document's object classes, each generated class must equal its parsed namesake and behave identically on a lifted value alphabet, and the generated root must agree with the reference Draft-6 evaluator on the dereferenced source document.",
        "trusted: mc/ref/draft6.py, json_ref_dict as dereferencer; recursive documents excluded (C20)",
        "exhaustive enumeration of a bounded document family through the real generator, exec + differential + reference-model oracle",
    ),
    "C09": (
        "E4-config",
        "PYTHONHASHSEEDs are searched until all 3! iteration orders of the library's hash-ordered composition-keyword set (and as many permutations of 24 further probe sets as the seed cap allows; coverage reported) are realised; one interpreter process per selected seed generates module text, JSON serialization and class names of every document of the family forward and in reverse; thorough adds every document alone in a fresh process and the real command line; all outputs must be byte-identical.",
        "trusted: the claim is exhaustive over iteration orders of the probe sets, not over all 2^32 seeds",
        "exhaustive enumeration of a configuration space (set iteration orders via concrete hash seeds, batch order, process instances), byte-identity oracle",
    ),
    "C20": (
        "E1-lattice",
        "Every <=1-atom lattice schema x 20 schema positions x 15 (unsupported keyword, value) atoms incl. falsy values through parse_element, parse and the generator must raise the not-implemented error while the schema without the keyword still parses; every digraph on <=3 definitions x 8 root reference sets x reference position kinds, rings of length 1..8 and cross-file rings go through the real generator under a call-event budget: reachable-or-defined cycle => not-implemented error, acyclic => an executable module.",
        "trusted: cycle oracle in mc/checks/c20.py; keyword names inside literals / as property names are counted only",
        "exhaustive enumeration of (schema, position, unsupported keyword) and of small reference graphs on the real parser/generator",
    ),
}

PENDING_REASON = "check not built yet in this session (planned in DESIGN.md section 4); no claim is made until its machinery exists"


def main():
    props = [json.loads(l)["id"] for l in open(os.path.join(HERE, "properties.jsonl"))]
    used = sorted({CHECKS[p][0] for p in CHECKS})
    man = {
        "version": 1,
        "setup_cmd": "./setup.sh",
        "hooks": {
            "guard": "STATHAM_VERIF",
            "enable": "no source hooks: the explorers reach every seam from outside (sys.settrace, json_ref_dict.loader.register, PYTHONHASHSEED, warnings); checks import /repo's working tree directly via PYTHONPATH=/repo",
            "baseline_off_cmd": "cd /repo && env -u STATHAM_VERIF /venv/bin/python -m pytest -ra -q -p no:cacheprovider --timeout=900 --continue-on-collection-errors",
            "source_commits": [],
            "add_only": True,
        },
        "engines": [
            {"name": e, "path": ENGINES[e][0], "serves_properties": sorted(p for p in CHECKS if CHECKS[p][0] == e), "kind_free_text": ENGINES[e][1]}
            for e in used
        ],
        "checks": [],
        "notes": "All checks are bounded exhaustive explorations of the real implementation (model checking family). known_findings.json lists recorded defects (status known) and repaired ones (status fixed, suppress nothing). See DESIGN.md.",
        "not_applicable": [],
    }
    for p in props:
        if p in CHECKS:
            eng, text, note, tech = CHECKS[p]
            man["checks"].append(
                {
                    "property_id": p,
                    "quick_cmd": "./check %s --tier quick" % p,
                    "thorough_cmd": "./check %s --tier thorough" % p,
                    "evidence_file": "evidence/%s.json" % p,
                    "replay_cmd_template": "./check %s --replay {path}" % p,
                    "engine": eng,
                    "level_claimed": {"category": "model_checking", "text": text, "design_ref": "DESIGN.md section 4, %s" % p},
                    "level_note": note,
                    "technique": tech,
                }
            )
        else:
            man["not_applicable"].append({"property_id": p, "reason": PENDING_REASON})
    with open(os.path.join(HERE, "MANIFEST.json"), "w") as fh:
        json.dump(man, fh, indent=1)
        fh.write("\n")


if __name__ == "__main__":
    main()
