#!/usr/bin/env python3
"""Regenerates MANIFEST.json from the table below (run after adding a check)."""
import json
import os

HERE = os.path.dirname(os.path.abspath(__file__))

ENGINES = {
    "E1-lattice": ("mc/lattice.py", "explicit-state BFS over a bounded construction lattice (schemas / documents / element trees / graphs / names); the real implementation is executed in every state and an invariant or reference model is evaluated there"),
    "E2-history": ("mc/history.py", "explicit-state BFS over operation sequences on live objects up to a depth bound; states are event histories rebuilt on fresh objects and de-duplicated by a full canonical snapshot"),
    "E3-schedule": ("mc/sched.py", "stateless exploration of all interleavings of real threads up to a preemption bound (iterative context bounding) under a sys.settrace line-level cooperative scheduler"),
    "E4-config": ("mc/procs.py", "exhaustive enumeration of a configuration space (iteration orders of hash-ordered sets realised by concrete PYTHONHASHSEEDs, batch order, process instances), one interpreter process per configuration"),
}

# id: (engine, level text, level note, technique)
CHECKS = {
    "C01": (
        "E1-lattice",
        "Every schema of the bounded construction lattice (all <=2-atom states over 165 keyword atoms, every 14-position wrapper of every <=1-atom state, the full object-core product type x required x properties x patternProperties x additionalProperties, a seed-rotated slice of depth 3; thorough: depth 3 inside each interaction group, wrappers of depth-2 states, nested wrappers) is parsed by the real parser and called on every value of a 56-value alphabet; each verdict is compared with a reference Draft-6 evaluator that is itself bound to jsonschema on every pair.",
        "trusted: mc/ref/draft6.py (cross-checked against jsonschema 4.26 on every explored pair); alphabets and depth bounds as stated in the evidence",
        "explicit-state enumeration of a bounded schema lattice x value alphabet on the real code, reference-model oracle",
    ),
    "C04": (
        "E1-lattice",
        "Every accepted (schema, value) pair of the same bounded lattice as C01 is executed on the real code and the returned model is compared with the input by a structural embedding oracle (members under Python/JSON names, scalar identity up to int->float under number, array length/order, extras only defaults or the not-passed marker).",
        "trusted: mc/ref/embed.py; branch-agnostic for untyped nested results (weaker than the statement there); alphabets/bounds as for C01",
        "explicit-state enumeration of the schema lattice x value alphabet, structural embedding oracle on every accepted pair",
    ),
    "C08": (
        "E2-history",
        "For every DSL-built tree of the element family and every parsed lattice schema (depth<=2 + wrappers + object core), all validate(v) transitions over the value alphabet are executed; each successor state (full canonical snapshot incl. private attributes, aliasing and registries) must equal its predecessor, so each tree's reachable set is one state; inputs unchanged; serializations unchanged; repetition round and depth-2 pair histories compared with a pristine tree.",
        "trusted: mc/impl.snapshot completeness (hedged by the depth-2 differential); value alphabets as stated",
        "explicit-state exploration of call histories with full-snapshot state comparison (all transitions must be self-loops)",
    ),
    "C10": (
        "E1-lattice",
        "Outcome classes of every call/parse over the ordinary lattice (depth<=2 + wrappers) and over the product of an extreme-schema family x an extreme-value alphabet (huge/tiny/infinite numbers, long digit strings, surrogates, nesting depth 100, unhashable mixes, dunder member names), each under a call-event budget and under natural and reversed validator iteration order, plus corner-schema parses.",
        "trusted: the call-event budget as a stand-in for termination; catastrophic-backtracking patterns excluded (stated in DESIGN.md)",
        "exhaustive enumeration of a bounded extreme schema x value product on the real code, outcome-class invariant",
    ),
    "C13": (
        "E2-history",
        "Breadth-first search over all operation histories up to depth 3 (quick) / 4 (thorough) on six kinds of live objects (untyped element, element with properties, String, Array, model class, subclass) with an alphabet of keyword assignments, property add/replace/delete/wholesale assignment and validation calls; in every state the live object's verdict+result vector over 28 probes equals that of a freshly constructed object carrying the reference model's configuration.",
        "trusted: the reference config model in mc/checks/c13.py; operation alphabet and depth bound as stated",
        "explicit-state BFS over reconfiguration/validation histories on real objects, differential against a freshly built twin in every state",
    ),
    "C15": (
        "E2-history",
        "All parent/child declarations over an 11-keyword class menu (sizes <=1 x <=2 and 2 x <=1, 5 property moves, chain length 2 and 3) are executed and the child compared with the flat class (verdicts, results, JSON), instances with isinstance, the parent observed before/after; plus BFS to depth 3/4 over histories of defining, using and reconfiguring children with the parent's full observation as state invariant.",
        "trusted: flat-class construction in mc/checks/c15.py; in-place mutation of inherited keyword values and docstring descriptions are outside the alphabet",
        "exhaustive enumeration of inheritance declarations + explicit-state BFS over define/use/reconfigure histories, parent-unchanged invariant",
    ),
    "C14": (
        "E3-schedule",
        "Real threads validating on one shared tree are run under a baton scheduler whose scheduling points are trace events inside statham files; all schedules with <=1 preemption at line granularity (quick: 5 harnesses; thorough: 11) and at call/backward-jump granularity (4 harnesses, one with 3 threads), and all schedules with <=2 preemptions at call/backward-jump granularity on small harnesses (thorough: complete for T1, T3; quick: a seed-rotated slice of first preemption points for T3) are executed to completion; each thread's verdict/result must equal its sequential run and the tree snapshot must be unchanged; replayed prefixes must not diverge.",
        "trusted: mc/sched.py (determinism probe replays one schedule twice per harness before exploring; divergence is a hard error); intra-line switches and C-extension internals are atomic; two preemptions at line granularity are not claimed",
        "stateless model checking of thread interleavings with iterative context bounding on the real code (sys.settrace scheduling points, semaphore baton)",
    ),
}

PENDING_REASON = "check not built yet in this session (planned in DESIGN.md section 4); no claim is made until its machinery exists"


def main():
    props = [json.loads(l)["id"] for l in open(os.path.join(HERE, "properties.jsonl"))]
    used = sorted({CHECKS[p][0] for p in CHECKS})
    man = {
        "version": 1,
        "setup_cmd": "./setup.sh",
        "hooks": {
            "guard": "STATHAM_VERIF",
            "enable": "no source hooks: the explorers reach every seam from outside (sys.settrace, json_ref_dict.loader.register, PYTHONHASHSEED, warnings); checks import /repo's working tree directly via PYTHONPATH=/repo",
            "baseline_off_cmd": "cd /repo && env -u STATHAM_VERIF /venv/bin/python -m pytest -ra -q -p no:cacheprovider --timeout=900 --continue-on-collection-errors",
            "source_commits": [],
            "add_only": True,
        },
        "engines": [
            {"name": e, "path": ENGINES[e][0], "serves_properties": sorted(p for p in CHECKS if CHECKS[p][0] == e), "kind_free_text": ENGINES[e][1]}
            for e in used
        ],
        "checks": [],
        "notes": "All checks are bounded exhaustive explorations of the real implementation (model checking family). known_findings.json lists recorded defects (status known) and repaired ones (status fixed, suppress nothing). See DESIGN.md.",
        "not_applicable": [],
    }
    for p in props:
        if p in CHECKS:
            eng, text, note, tech = CHECKS[p]
            man["checks"].append(
                {
                    "property_id": p,
                    "quick_cmd": "./check %s --tier quick" % p,
                    "thorough_cmd": "./check %s --tier thorough" % p,
                    "evidence_file": "evidence/%s.json" % p,
                    "replay_cmd_template": "./check %s --replay {path}" % p,
                    "engine": eng,
                    "level_claimed": {"category": "model_checking", "text": text, "design_ref": "DESIGN.md section 4, %s" % p},
                    "level_note": note,
                    "technique": tech,
                }
            )
        else:
            man["not_applicable"].append({"property_id": p, "reason": PENDING_REASON})
    with open(os.path.join(HERE, "MANIFEST.json"), "w") as fh:
        json.dump(man, fh, indent=1)
        fh.write("\n")


if __name__ == "__main__":
    main()
