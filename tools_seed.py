#!/usr/bin/env python3
"""Evaluate / record a seeded property-breaking change.

  tools_seed.py eval <patch.diff> <demo.py> <ID>[,<ID>...] [--tier quick|thorough] [--save <name> --prop <ID> --needs "<text>"]

Applies the patch to /repo's working tree (never commits), runs the repository's tests (must be 1008 passed),
runs the demo with and without the patch, runs the named checks with --no-evidence, undoes the patch.
With --save, copies patch/demo into /verif/seeded/<name>/ and writes meta.json with what was run and observed.
"""
import argparse
import json
import os
import re
import shutil
import subprocess
import sys
import time

REPO = os.environ.get("SEED_REPO", "/repo")  # a scratch worktree of /repo may be used so that /repo stays untouched
VERIF = os.path.dirname(os.path.abspath(__file__))


def sh(cmd, **kw):
    return subprocess.run(cmd, shell=True, capture_output=True, text=True, **kw)


def repo_clean():
    return sh("git -C %s status --porcelain -- statham tests" % REPO).stdout.strip() == ""


def run_tests():
    out = sh("cd %s && env -u STATHAM_VERIF PYTHONDONTWRITEBYTECODE=1 /venv/bin/python -m pytest -q -p no:cacheprovider --timeout=900 --continue-on-collection-errors 2>&1 | tail -3" % REPO).stdout
    m = re.search(r"(\d+) passed", out)
    failed = re.search(r"(\d+) failed", out)
    return (int(m.group(1)) if m else 0), (int(failed.group(1)) if failed else 0), out.strip().splitlines()[-1] if out.strip() else ""


def run_demo(demo):
    r = sh("cd %s && PYTHONDONTWRITEBYTECODE=1 PYTHONPATH=%s /venv/bin/python %s" % (REPO, REPO, demo), timeout=600)
    return r.returncode, (r.stdout + r.stderr)[-600:]


def _keys(stdout):
    return sorted({l.split("key=", 1)[1].split(" ", 1)[0] for l in stdout.splitlines() if l.startswith("  key=")})


def baseline_keys(cid, tier):
    """Violation keys the check reports on the UNPATCHED scratch tree (non-empty only when that tree is an older commit
    than the checks were written for); cached per (repo HEAD, check, tier, checks' git state)."""
    head = sh("git -C %s rev-parse --short HEAD" % REPO).stdout.strip()
    vhead = sh("git -C %s rev-parse --short HEAD" % VERIF).stdout.strip() + ("+" if sh("git -C %s status --porcelain mc" % VERIF).stdout.strip() else "")
    cache = "/tmp/wt/baseline_%s_%s_%s_%s.json" % (head, cid, tier, vhead.replace("+", "d"))
    if os.path.exists(cache) and not vhead.endswith("+"):
        return json.load(open(cache))
    r = sh("cd %s && VERIF_REPO=%s ./check %s --tier %s --no-evidence" % (VERIF, REPO, cid, tier), timeout=7200)
    keys = _keys(r.stdout)
    try:
        json.dump(keys, open(cache, "w"))
    except OSError:
        pass
    return keys


def run_check(cid, tier, base=()):
    t = time.time()
    r = sh("cd %s && VERIF_REPO=%s ./check %s --tier %s --no-evidence" % (VERIF, REPO, cid, tier), timeout=7200)
    lines = [l for l in r.stdout.splitlines() if l.startswith(("VIOLATION", "  key=", "KNOWN-FINDING"))]
    new = [k for k in _keys(r.stdout) if k not in base]
    shown = [l for l in lines if "key=" in l and any(("key=%s " % k) in l for k in new)]
    return {"check": cid, "tier": tier, "exit": r.returncode, "wall_s": round(time.time() - t, 1), "new_keys": new, "baseline_keys": list(base), "lines": [l[:300] for l in (shown or lines)[:8]]}


def main():
    ap = argparse.ArgumentParser()
    ap.add_argument("cmd", choices=["eval"])
    ap.add_argument("patch")
    ap.add_argument("demo")
    ap.add_argument("checks")
    ap.add_argument("--tier", default="quick")
    ap.add_argument("--save")
    ap.add_argument("--prop")
    ap.add_argument("--needs", default="")
    ap.add_argument("--notes")
    a = ap.parse_args()
    if not repo_clean():
        print("repo working tree not clean")
        return 2
    patch = os.path.abspath(a.patch)
    demo = os.path.abspath(a.demo)
    # demos written for a scratch worktree may assert the worktree path; run a copy with that path rewritten
    demo_src = open(demo).read()
    demo_src = re.sub(r"/tmp/wt/[A-Za-z0-9_]+", REPO, demo_src)
    os.makedirs(os.path.join(REPO, "MUTATION"), exist_ok=True)  # demos locate the library relative to <root>/MUTATION/
    tmp_demo = os.path.join(REPO, "MUTATION", "demo_%d.py" % os.getpid())
    open(tmp_demo, "w").write(demo_src)
    report = {"patch": os.path.basename(patch), "applies": False}
    try:
        rc0, out0 = run_demo(tmp_demo)
        report["demo_without_patch_exit"] = rc0
        bases = {c: baseline_keys(c, a.tier) for c in a.checks.split(",") if c}
        ap_ = sh("git -C %s apply %s" % (REPO, patch))
        if ap_.returncode != 0:
            report["apply_error"] = ap_.stderr[-400:]
            print(json.dumps(report, indent=1))
            return 2
        report["applies"] = True
        passed, failed, last = run_tests()
        report["repo_tests"] = {"passed": passed, "failed": failed, "summary": last}
        rc1, out1 = run_demo(tmp_demo)
        report["demo_with_patch_exit"] = rc1
        report["demo_with_patch_tail"] = out1[-300:]
        report["checks"] = [run_check(c, a.tier, bases.get(c, ())) for c in a.checks.split(",") if c]
    finally:
        sh("git -C %s checkout -- ." % REPO)
        shutil.rmtree(os.path.join(REPO, "MUTATION"), ignore_errors=True)
    report["valid_seed"] = bool(report.get("applies") and report["repo_tests"]["passed"] >= 1008 and report["repo_tests"]["failed"] == 0 and report["demo_without_patch_exit"] == 0 and report["demo_with_patch_exit"] != 0)
    report["caught_by"] = [c["check"] for c in report.get("checks", []) if c["exit"] == 1 and c["new_keys"]]
    print(json.dumps(report, indent=1))
    if a.save and report["valid_seed"]:
        d = os.path.join(VERIF, "seeded", a.save)
        os.makedirs(d, exist_ok=True)
        shutil.copy(patch, os.path.join(d, "patch.diff"))
        open(os.path.join(d, "demo.py"), "w").write(demo_src)
        if a.notes and os.path.exists(a.notes):
            shutil.copy(a.notes, os.path.join(d, "notes.md"))
        meta = {"property": a.prop, "needs_to_manifest": a.needs, "repo_head": sh("git -C %s rev-parse --short HEAD" % REPO).stdout.strip(), "ran": report}
        json.dump(meta, open(os.path.join(d, "meta.json"), "w"), indent=1)
        print("saved to", d)
    return 0


if __name__ == "__main__":
    sys.exit(main())
